//! B4 Store fixture and thin wrappers around the observed API (`ingest_operation`, `LogStore`,
//! `OperationStore`, `TopicStore`, `Transaction`).

use std::collections::BTreeMap;

use p2panda_core::{Hash, Operation, SeqNum, VerifyingKey};
use p2panda_store::logs::LogStore;
use p2panda_store::operations::OperationStore;
use p2panda_store::topics::TopicStore;
use p2panda_store::{SqliteStore, Transaction};
use p2panda_stream::ingest::{IngestError, ingest_operation};

use crate::factory::{Flavor, H32};

pub type Topic = [u8; 32];
pub const TOPIC: Topic = [7u8; 32];

pub fn runtime() -> tokio::runtime::Runtime {
    tokio::runtime::Builder::new_current_thread()
        .enable_all()
        .build()
        .expect("tokio runtime")
}

/// Fresh private in-memory store (one connection, own database).
pub async fn store() -> SqliteStore {
    SqliteStore::temporary().await
}

#[derive(Clone, Debug, PartialEq, Eq)]
pub enum Outcome {
    Inserted,
    Exists,
    Invalid(String),
}

impl Outcome {
    pub fn class(&self) -> &'static str {
        match self {
            Outcome::Inserted => "Ok(true)",
            Outcome::Exists => "Ok(false)",
            Outcome::Invalid(_) => "Err(InvalidOperation)",
        }
    }
}

/// A storage failure is a problem of the fixture, never a property violation.
pub fn store_failure(what: &str, err: impl std::fmt::Display) -> ! {
    engine::harness_error(&format!("store failure in {what}: {err}"))
}

/// Calls `ingest_operation` the way the stream processors do: log id and prune flag are taken
/// from the operation's own (signed) header.
pub async fn ingest<E: Flavor>(store: &SqliteStore, op: &Operation<E>) -> Outcome {
    let (log, prune) = op.header.extensions.route();
    ingest_as(store, op, &log, prune).await
}

pub async fn ingest_as<E: Flavor>(store: &SqliteStore, op: &Operation<E>, log: &E::Log, prune: bool) -> Outcome {
    match ingest_operation::<_, Operation<E>, E::Log, E, Topic>(store, op, log, &TOPIC, prune).await {
        Ok(true) => Outcome::Inserted,
        Ok(false) => Outcome::Exists,
        Err(IngestError::InvalidOperation(e)) => Outcome::Invalid(e.to_string()),
        Err(IngestError::StoreError(e)) => store_failure("ingest_operation", e),
    }
}

pub async fn prune<E: Flavor>(store: &SqliteStore, author: &VerifyingKey, log: &E::Log, until: SeqNum) -> u64 {
    match <SqliteStore as LogStore<Operation<E>, VerifyingKey, E::Log, SeqNum, Hash>>::prune_entries(store, author, log, &until).await {
        Ok(n) => n,
        Err(e) => store_failure("prune_entries", e),
    }
}

/// `(seq, id, prune flag, backlink)` of every stored entry of a log, in store order.
pub async fn log_entries<E: Flavor>(store: &SqliteStore, author: &VerifyingKey, log: &E::Log) -> Vec<(u32, H32, bool, Option<H32>)> {
    let entries = match <SqliteStore as LogStore<Operation<E>, VerifyingKey, E::Log, SeqNum, Hash>>::get_log_entries(store, author, log, None, None).await {
        Ok(e) => e,
        Err(e) => store_failure("get_log_entries", e),
    };
    entries
        .unwrap_or_default()
        .into_iter()
        .map(|(op, _)| {
            (
                op.header.seq_num,
                *op.hash.as_bytes(),
                op.header.extensions.route().1,
                op.header.backlink.map(|h| *h.as_bytes()),
            )
        })
        .collect()
}

pub async fn log_height<E: Flavor>(store: &SqliteStore, author: &VerifyingKey, log: &E::Log) -> Option<u32> {
    let logs = [log.clone()];
    match <SqliteStore as LogStore<Operation<E>, VerifyingKey, E::Log, SeqNum, Hash>>::get_log_heights(store, author, &logs).await {
        Ok(h) => h.and_then(|m| m.get(log).copied()),
        Err(e) => store_failure("get_log_heights", e),
    }
}

pub async fn has_operation<E: Flavor>(store: &SqliteStore, id: &Hash) -> bool {
    match <SqliteStore as OperationStore<Operation<E>, Hash>>::has_operation(store, id).await {
        Ok(b) => b,
        Err(e) => store_failure("has_operation", e),
    }
}

pub async fn resolve<E: Flavor>(store: &SqliteStore) -> BTreeMap<VerifyingKey, Vec<E::Log>> {
    match <SqliteStore as TopicStore<Topic, VerifyingKey, E::Log>>::resolve(store, &TOPIC).await {
        Ok(mut m) => {
            for v in m.values_mut() {
                v.sort();
            }
            m
        }
        Err(e) => store_failure("resolve", e),
    }
}

/// `begin()` followed by `rollback()`: succeeds only if no permit leaked.
pub async fn begin_works(store: &SqliteStore) -> Result<(), String> {
    let permit = store.begin().await.map_err(|e| format!("begin() failed: {e}"))?;
    store.rollback(permit).await.map_err(|e| format!("rollback() failed: {e}"))
}

/// Observable state of the store over a universe of (author, log) pairs.
#[derive(Clone, Debug, PartialEq, Eq)]
pub struct Snapshot<L: Ord> {
    pub logs: BTreeMap<(H32, L), Vec<(u32, H32, bool, Option<H32>)>>,
    pub heights: BTreeMap<(H32, L), Option<u32>>,
    pub topic: BTreeMap<H32, Vec<L>>,
}

pub async fn snapshot<E: Flavor>(store: &SqliteStore, universe: &[(VerifyingKey, E::Log)]) -> Snapshot<E::Log> {
    let mut logs = BTreeMap::new();
    let mut heights = BTreeMap::new();
    for (a, l) in universe {
        logs.insert((*a.as_bytes(), l.clone()), log_entries::<E>(store, a, l).await);
        heights.insert((*a.as_bytes(), l.clone()), log_height::<E>(store, a, l).await);
    }
    let topic = resolve::<E>(store)
        .await
        .into_iter()
        .map(|(k, v)| (*k.as_bytes(), v))
        .collect();
    Snapshot { logs, heights, topic }
}
