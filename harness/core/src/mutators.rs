//! B2 Mutators: single field-level mutations of a valid operation and single byte-level mutations
//! of an encoded header.

use serde::{Deserialize, Serialize};

use crate::factory::{ExtSpec, Fields, Sig, dalek_key, public_key, tag_hash};

/// One field-level change of a valid operation. The signature is kept (a third party tampering
/// with an operation cannot re-sign it) except for the explicit signature mutations.
#[derive(Clone, Debug, PartialEq, Eq, Serialize, Deserialize)]
pub enum FieldMutation {
    Version(u16),
    /// Claim another author's (valid) key.
    Key(u8),
    SigFlip { byte: u8, bit: u8 },
    SigSet { byte: u8, value: u8 },
    /// No signature at all (only expressible on the in-memory value).
    SigDrop,
    /// Signed by an attacker's key over the same unsigned bytes while claiming the victim.
    SigByOther(u8),
    PayloadSize(i8),
    /// `None` removes the hash, `Some(tag)` sets another one.
    PayloadHash(Option<u16>),
    Seq(i8),
    SeqSet(u32),
    /// `None` removes the backlink, `Some(tag)` sets another one.
    Backlink(Option<u16>),
    ExtLog(u8),
    ExtPrune,
    ExtTag(u32),
    ExtNote(u8),
    ExtTimestamp(u64),
    BodyFlip { pos: u16, bit: u8 },
    BodyTruncate,
    BodyExtend(u8),
    /// Attach a body to an operation that has none / replace it by an unrelated one.
    BodyReplace(u8),
}

pub struct Mutant {
    pub fields: Fields,
    pub sig: Option<Sig>,
    pub body: Option<Vec<u8>>,
}

impl FieldMutation {
    /// Short class name for labels.
    pub fn class(&self) -> &'static str {
        use FieldMutation::*;
        match self {
            Version(_) => "mut_version",
            Key(_) => "mut_key",
            SigFlip { .. } | SigSet { .. } | SigDrop | SigByOther(_) => "mut_signature",
            PayloadSize(_) | PayloadHash(_) => "mut_payload_info",
            Seq(_) | SeqSet(_) | Backlink(_) => "mut_seq_backlink",
            ExtLog(_) | ExtPrune | ExtTag(_) | ExtNote(_) | ExtTimestamp(_) => "mut_extension",
            BodyFlip { .. } | BodyTruncate | BodyExtend(_) | BodyReplace(_) => "mut_body",
        }
    }

    /// Applies the mutation; `None` when it would not change anything (or does not apply).
    pub fn apply(&self, fields: &Fields, sig: &Sig, body: Option<&[u8]>) -> Option<Mutant> {
        use FieldMutation::*;
        let mut f = fields.clone();
        let mut s = Some(*sig);
        let mut b = body.map(|b| b.to_vec());
        match self {
            Version(v) => f.version = *v,
            Key(a) => f.key = public_key(*a),
            SigFlip { byte, bit } => {
                let mut x = *sig;
                x[(*byte % 64) as usize] ^= 1 << (bit % 8);
                s = Some(x);
            }
            SigSet { byte, value } => {
                let mut x = *sig;
                x[(*byte % 64) as usize] = *value;
                s = Some(x);
            }
            SigDrop => s = None,
            SigByOther(a) => {
                if public_key(*a) == fields.key {
                    return None;
                }
                s = Some(fields.sign_with(&dalek_key(*a)));
            }
            PayloadSize(d) => f.size = f.size.wrapping_add(*d as i32 as u32),
            PayloadHash(h) => f.hash = h.map(tag_hash),
            Seq(d) => f.seq = f.seq.wrapping_add(*d as i32 as u32),
            SeqSet(v) => f.seq = *v,
            Backlink(h) => f.backlink = h.map(tag_hash),
            ExtLog(l) => match &mut f.ext {
                ExtSpec::Custom { log, .. } | ExtSpec::NodeBasic { log, .. } | ExtSpec::NodeCausal { log, .. } => *log = *l,
                ExtSpec::Unit => return None,
            },
            ExtPrune => match &mut f.ext {
                ExtSpec::Custom { prune, .. } | ExtSpec::NodeBasic { prune, .. } => *prune = !*prune,
                _ => return None,
            },
            ExtTag(t) => match &mut f.ext {
                ExtSpec::Custom { tags, .. } => tags.push(*t),
                ExtSpec::NodeCausal { previous, .. } => {
                    let t = *t as u16;
                    if previous.contains(&t) {
                        return None;
                    }
                    previous.push(t)
                }
                _ => return None,
            },
            ExtNote(c) => match &mut f.ext {
                ExtSpec::Custom { note, .. } => note.push((b'a' + c % 26) as char),
                _ => return None,
            },
            ExtTimestamp(t) => match &mut f.ext {
                ExtSpec::NodeBasic { ts, .. } | ExtSpec::NodeCausal { ts, .. } => *ts = *t,
                _ => return None,
            },
            BodyFlip { pos, bit } => {
                let body = b.as_mut()?;
                if body.is_empty() {
                    return None;
                }
                let i = engine::idx(*pos, body.len());
                body[i] ^= 1 << (bit % 8);
            }
            BodyTruncate => {
                let body = b.as_mut()?;
                if body.is_empty() {
                    return None;
                }
                body.pop();
            }
            BodyExtend(x) => b.as_mut()?.push(*x),
            BodyReplace(x) => b = Some(vec![*x, 0x55, x.wrapping_add(1)]),
        }
        if f == *fields && s == Some(*sig) && b.as_deref() == body {
            return None;
        }
        Some(Mutant { fields: f, sig: s, body: b })
    }
}

/// One byte-level change of an encoded header.
#[derive(Clone, Debug, PartialEq, Eq, Serialize, Deserialize)]
pub enum ByteMutation {
    Flip { pos: u16, bit: u8 },
    Set { pos: u16, value: u8 },
    Delete { pos: u16 },
    Insert { pos: u16, value: u8 },
    Truncate { pos: u16 },
    Append { value: u8 },
}

impl ByteMutation {
    pub fn apply(&self, bytes: &[u8]) -> Option<Vec<u8>> {
        let mut v = bytes.to_vec();
        if v.is_empty() {
            return None;
        }
        match self {
            ByteMutation::Flip { pos, bit } => {
                let i = engine::idx(*pos, v.len());
                v[i] ^= 1 << (bit % 8);
            }
            ByteMutation::Set { pos, value } => {
                let i = engine::idx(*pos, v.len());
                v[i] = *value;
            }
            ByteMutation::Delete { pos } => {
                let i = engine::idx(*pos, v.len());
                v.remove(i);
            }
            ByteMutation::Insert { pos, value } => {
                let i = engine::idx(*pos, v.len() + 1);
                v.insert(i, *value);
            }
            ByteMutation::Truncate { pos } => {
                let i = engine::idx(*pos, v.len());
                v.truncate(i);
            }
            ByteMutation::Append { value } => v.push(*value),
        }
        if v == bytes { None } else { Some(v) }
    }
}

/// Proptest strategies for the mutations.
pub mod strategies {
    use engine::proptest::prelude::*;

    use super::{ByteMutation, FieldMutation};

    pub fn field_mutation() -> impl Strategy<Value = FieldMutation> {
        let header = prop_oneof![
            prop_oneof![Just(0u16), Just(2u16), Just(3u16), any::<u16>()].prop_map(FieldMutation::Version),
            (0u8..6).prop_map(FieldMutation::Key),
            prop_oneof![Just(1i8), Just(-1i8), any::<i8>()].prop_map(FieldMutation::PayloadSize),
            prop::option::of(0u16..8).prop_map(FieldMutation::PayloadHash),
            prop_oneof![Just(1i8), Just(-1i8), any::<i8>()].prop_map(FieldMutation::Seq),
            prop_oneof![Just(0u32), Just(u32::MAX), any::<u32>()].prop_map(FieldMutation::SeqSet),
            prop::option::of(0u16..8).prop_map(FieldMutation::Backlink),
        ];
        let signature = prop_oneof![
            (0u8..64, 0u8..8).prop_map(|(byte, bit)| FieldMutation::SigFlip { byte, bit }),
            (0u8..64, any::<u8>()).prop_map(|(byte, value)| FieldMutation::SigSet { byte, value }),
            Just(FieldMutation::SigDrop),
            (0u8..6).prop_map(FieldMutation::SigByOther),
        ];
        let extension = prop_oneof![
            (0u8..4).prop_map(FieldMutation::ExtLog),
            Just(FieldMutation::ExtPrune),
            (0u32..6).prop_map(FieldMutation::ExtTag),
            any::<u8>().prop_map(FieldMutation::ExtNote),
            prop_oneof![Just(0u64), any::<u64>()].prop_map(FieldMutation::ExtTimestamp),
        ];
        let body = prop_oneof![
            (any::<u16>(), 0u8..8).prop_map(|(pos, bit)| FieldMutation::BodyFlip { pos, bit }),
            Just(FieldMutation::BodyTruncate),
            any::<u8>().prop_map(FieldMutation::BodyExtend),
            any::<u8>().prop_map(FieldMutation::BodyReplace),
        ];
        prop_oneof![7 => header, 4 => signature, 4 => extension, 4 => body]
    }

    pub fn byte_mutation() -> impl Strategy<Value = ByteMutation> {
        prop_oneof![
            4 => (any::<u16>(), 0u8..8).prop_map(|(pos, bit)| ByteMutation::Flip { pos, bit }),
            2 => (any::<u16>(), any::<u8>()).prop_map(|(pos, value)| ByteMutation::Set { pos, value }),
            1 => any::<u16>().prop_map(|pos| ByteMutation::Delete { pos }),
            1 => (any::<u16>(), any::<u8>()).prop_map(|(pos, value)| ByteMutation::Insert { pos, value }),
            1 => any::<u16>().prop_map(|pos| ByteMutation::Truncate { pos }),
            1 => any::<u8>().prop_map(|value| ByteMutation::Append { value }),
        ]
    }
}
