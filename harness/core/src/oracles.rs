//! Byte-level oracles shared by the generated checks and the libFuzzer targets.
//!
//! * [`reference_valid`] – C01: the five rules of `validate_operation`'s doc comment, decided from
//!   the *canonical header bytes* (`Header::to_bytes()` of the header in question) and the body,
//!   with an independent signature check: the header is parsed as a plain CBOR array, the
//!   signature element is removed, the rest is re-encoded and handed to
//!   `ed25519_dalek::VerifyingKey::verify_strict`.
//! * [`roundtrip_oracle`] – C02: repeated decodes of the same bytes give equal values with
//!   identical encoding, id and signature validity; a valid header survives encode → decode.
//!
//! This file is self-contained (ciborium, ed25519-dalek, hex, serde, p2panda-core only) so that a
//! fuzz crate can include it with `#[path]`.
//!
//! Fuzz-target usage: decode the input with the code under test first and hand
//! `header.to_bytes()` to `reference_valid` (the statement speaks about the canonical bytes; the
//! decoder is more liberal than the canonical form, e.g. it skips tags).

use ciborium::Value;
use p2panda_core::cbor::decode_cbor;
use p2panda_core::{Extensions, Hash, Header, validate_header};

/// Which extension type a header carries (needed to interpret header bytes).
#[derive(Clone, Copy, Debug, PartialEq, Eq, serde::Serialize, serde::Deserialize)]
pub enum ExtKind {
    /// `()` – no extension element on the wire.
    Unit,
    /// A serde struct (CBOR map), e.g. `factory::CustomExt`.
    Custom,
    /// Node API extensions (CBOR array, Basic or Causal variant).
    Node,
}

/// Structural reading of canonical header bytes, written from the specification.
#[derive(Clone, Debug)]
pub struct Parsed {
    pub version: u64,
    pub key: [u8; 32],
    pub sig: [u8; 64],
    pub size: u64,
    pub hash: Option<[u8; 32]>,
    pub seq: u64,
    pub backlink: Option<[u8; 32]>,
    pub ext: Option<Value>,
    /// Re-encoding of the array without its signature element.
    pub unsigned: Vec<u8>,
}

fn as_u64(v: &Value) -> Option<u64> {
    v.as_integer().and_then(|i| u64::try_from(i).ok())
}

fn as_fixed<const N: usize>(v: &Value) -> Option<[u8; N]> {
    v.as_bytes().and_then(|b| <[u8; N]>::try_from(b.as_slice()).ok())
}

/// `(version, key, signature, size, [hash if size > 0], seq, [backlink if seq > 0], [ext])`.
pub fn parse_header(bytes: &[u8], kind: ExtKind) -> Result<Parsed, &'static str> {
    let mut reader = bytes;
    let value: Value = ciborium::de::from_reader(&mut reader).map_err(|_| "not CBOR")?;
    if !reader.is_empty() {
        return Err("trailing bytes");
    }
    let Value::Array(items) = value else {
        return Err("not an array");
    };
    let mut it = items.iter();
    let version = it.next().and_then(as_u64).ok_or("version")?;
    let key = it.next().and_then(as_fixed::<32>).ok_or("key")?;
    let sig = it.next().and_then(as_fixed::<64>).ok_or("signature")?;
    let size = it.next().and_then(as_u64).ok_or("payload size")?;
    let hash = if size > 0 {
        Some(it.next().and_then(as_fixed::<32>).ok_or("payload hash")?)
    } else {
        None
    };
    let seq = it.next().and_then(as_u64).ok_or("seq num")?;
    let backlink = if seq > 0 {
        Some(it.next().and_then(as_fixed::<32>).ok_or("backlink")?)
    } else {
        None
    };
    let ext = match kind {
        ExtKind::Unit => None,
        ExtKind::Custom => match it.next() {
            Some(v @ Value::Map(_)) => Some(v.clone()),
            _ => return Err("extensions"),
        },
        ExtKind::Node => match it.next() {
            Some(v @ Value::Array(_)) => Some(v.clone()),
            _ => return Err("extensions"),
        },
    };
    if it.next().is_some() {
        return Err("excess fields");
    }
    if version > u16::MAX as u64 || size > u32::MAX as u64 || seq > u32::MAX as u64 {
        return Err("field out of range");
    }
    let mut unsigned_items = items.clone();
    unsigned_items.remove(2);
    let mut unsigned = Vec::new();
    ciborium::ser::into_writer(&Value::Array(unsigned_items), &mut unsigned).map_err(|_| "re-encode")?;
    Ok(Parsed {
        version,
        key,
        sig,
        size,
        hash,
        seq,
        backlink,
        ext,
        unsigned,
    })
}

/// Independent ed25519 check of a parsed header's signature over its unsigned re-encoding.
pub fn signature_ok(p: &Parsed) -> bool {
    let Ok(vk) = ed25519_dalek::VerifyingKey::from_bytes(&p.key) else {
        return false;
    };
    let sig = ed25519_dalek::Signature::from_bytes(&p.sig);
    vk.verify_strict(&p.unsigned, &sig).is_ok()
}

/// Which of the five documented rules hold (signature, version, payload info, backlink/seq, body).
#[derive(Clone, Copy, Debug, Default, PartialEq, Eq)]
pub struct Rules {
    pub well_formed: bool,
    pub signature: bool,
    pub version: bool,
    pub body: bool,
}

impl Rules {
    pub fn all(&self) -> bool {
        self.well_formed && self.signature && self.version && self.body
    }
}

/// Evaluates the rules of `validate_operation`'s doc comment on canonical header bytes + body.
///
/// "payload hash iff payload size > 0" and "backlink iff seq num > 0" are part of the wire format
/// (field presence is derived from size/seq), so for canonical bytes they are exactly
/// `well_formed`.
pub fn reference_rules(header_bytes: &[u8], body: Option<&[u8]>, kind: ExtKind) -> Rules {
    let Ok(p) = parse_header(header_bytes, kind) else {
        return Rules::default();
    };
    let body_ok = match body {
        None => true,
        Some(b) => p.hash == Some(*Hash::digest(b).as_bytes()) && p.size == b.len() as u64,
    };
    Rules {
        well_formed: true,
        signature: signature_ok(&p),
        version: p.version == 1,
        body: body_ok,
    }
}

/// Reference validity predicate of C01.
pub fn reference_valid(header_bytes: &[u8], body: Option<&[u8]>, kind: ExtKind) -> bool {
    reference_rules(header_bytes, body, kind).all()
}

#[derive(Clone, Copy, Debug, PartialEq, Eq)]
pub enum Roundtrip {
    /// The bytes do not decode as `Header<E>`.
    Undecodable,
    /// They decode consistently, but the header does not pass validation (premise false).
    Invalid,
    /// Valid header; all round-trip laws hold.
    Valid,
}

/// C02 oracle on header bytes: decode them `decodes` times (each decode builds fresh values, e.g.
/// fresh `HashSet`s) and require
/// * every decode succeeds iff the first did, and all decoded values are equal,
/// * equal values encode to identical bytes, have the same id and the same signature validity,
/// * if the header passes validation: decoding its own encoding gives an equal header that still
///   validates, with identical bytes and id.
pub fn roundtrip_oracle<E>(bytes: &[u8], decodes: usize) -> Result<Roundtrip, String>
where
    E: Extensions + PartialEq,
{
    let Ok(first) = decode_cbor::<Header<E>, _>(bytes) else {
        for i in 1..decodes {
            if decode_cbor::<Header<E>, _>(bytes).is_ok() {
                return Err(format!("decode #{i} of the same bytes succeeded after the first one failed"));
            }
        }
        return Ok(Roundtrip::Undecodable);
    };
    let enc0 = first.to_bytes();
    let id0 = first.hash();
    let ok0 = first.verify();
    let valid0 = validate_header(&first).is_ok();
    if first.to_bytes() != enc0 {
        return Err("encoding the same header value twice gives different bytes".into());
    }
    for i in 1..decodes.max(1) {
        let h = decode_cbor::<Header<E>, _>(bytes)
            .map_err(|e| format!("decode #{i} of the same bytes failed ({e}) after the first one succeeded"))?;
        if h != first {
            return Err(format!("decode #{i} of the same bytes gives a different header value"));
        }
        let enc = h.to_bytes();
        if enc != enc0 {
            return Err(format!(
                "equal header values encode differently (decode #{i}): {} vs {}",
                hex::encode(&enc0),
                hex::encode(&enc)
            ));
        }
        if h.hash() != id0 {
            return Err(format!("equal header values have different ids (decode #{i})"));
        }
        if h.verify() != ok0 || validate_header(&h).is_ok() != valid0 {
            return Err(format!(
                "signature validity of equal header values differs (decode #0: {ok0}, decode #{i}: {})",
                h.verify()
            ));
        }
    }
    if !valid0 {
        return Ok(Roundtrip::Invalid);
    }
    // Valid header: its own encoding must bring it back unchanged.
    let again = decode_cbor::<Header<E>, _>(&enc0[..])
        .map_err(|e| format!("encoding of a valid header does not decode: {e}"))?;
    if again != first {
        return Err("decode(encode(h)) != h".into());
    }
    if !again.verify() || validate_header(&again).is_err() {
        return Err("decode(encode(h)) no longer verifies".into());
    }
    if again.to_bytes() != enc0 {
        return Err("encode(decode(encode(h))) != encode(h)".into());
    }
    if again.hash() != id0 {
        return Err("id changed over encode/decode".into());
    }
    Ok(Roundtrip::Valid)
}
