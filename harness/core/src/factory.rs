//! B1 Operation factory.
//!
//! Everything is derived from small plain-data seeds so that cases serialise, shrink and replay:
//! authors are `SigningKey::from_bytes(seed32(author))`, hashes are digests of small tags.
//!
//! The factory has its *own* encoder of the header wire format (a ciborium `Value` array written
//! from the specification in `p2panda-core/src/serde.rs` / `p2panda/src/operation.rs`) and signs
//! with `ed25519_dalek` directly, i.e. it produces operations the way a remote peer's independent
//! implementation would. The code under test is only used to turn the result into the
//! `Header<E>` / `Operation<E>` values its API wants.

use ciborium::Value;
use ed25519_dalek::Signer;
use p2panda_core::cbor::decode_cbor;
use p2panda_core::{Body, Extensions, Hash, Header, LogId, Operation, Signature, VerifyingKey};
use serde::{Deserialize, Serialize};

pub type H32 = [u8; 32];
pub type Sig = [u8; 64];

/// Node API extensions type.
pub type NodeExt = p2panda::operation::Extensions;

pub use crate::oracles::ExtKind;

/// A small application-defined extension struct (what a user of p2panda-core would write).
#[derive(Clone, Debug, PartialEq, Eq, Serialize, Deserialize)]
pub struct CustomExt {
    pub log: u8,
    pub prune: bool,
    pub tags: Vec<u32>,
    pub note: String,
}

/// Plain-data description of an extension value.
#[derive(Clone, Debug, PartialEq, Eq, Serialize, Deserialize)]
pub enum ExtSpec {
    Unit,
    Custom { log: u8, prune: bool, tags: Vec<u32>, note: String },
    NodeBasic { log: u8, ts: u64, prune: bool },
    /// `previous` are tags of hashes (see [`tag_hash`]); order and duplicates are kept on the wire.
    NodeCausal { log: u8, ts: u64, previous: Vec<u16> },
}

pub fn digest(bytes: &[u8]) -> H32 {
    *Hash::digest(bytes).as_bytes()
}

/// Deterministic 32-byte hash for a small tag.
pub fn tag_hash(tag: u16) -> H32 {
    let mut v = b"verif-tag-".to_vec();
    v.extend_from_slice(&tag.to_be_bytes());
    digest(&v)
}

/// Deterministic Node API log id for a small log number.
pub fn node_log_id(log: u8) -> H32 {
    digest(&[b'L', b'o', b'g', log])
}

fn int(v: u64) -> Value {
    Value::Integer(v.into())
}

impl ExtSpec {
    pub fn kind(&self) -> ExtKind {
        match self {
            ExtSpec::Unit => ExtKind::Unit,
            ExtSpec::Custom { .. } => ExtKind::Custom,
            ExtSpec::NodeBasic { .. } | ExtSpec::NodeCausal { .. } => ExtKind::Node,
        }
    }

    /// Wire form of the extension element (`None` for the zero-sized `()`).
    pub fn to_value(&self) -> Option<Value> {
        match self {
            ExtSpec::Unit => None,
            ExtSpec::Custom { log, prune, tags, note } => Some(Value::Map(vec![
                (Value::Text("log".into()), int(*log as u64)),
                (Value::Text("prune".into()), Value::Bool(*prune)),
                (
                    Value::Text("tags".into()),
                    Value::Array(tags.iter().map(|t| int(*t as u64)).collect()),
                ),
                (Value::Text("note".into()), Value::Text(note.clone())),
            ])),
            ExtSpec::NodeBasic { log, ts, prune } => Some(Value::Array(vec![
                int(1),
                int(0),
                Value::Bytes(node_log_id(*log).to_vec()),
                int(*ts),
                Value::Bool(*prune),
            ])),
            ExtSpec::NodeCausal { log, ts, previous } => Some(Value::Array(vec![
                int(1),
                int(1),
                Value::Bytes(node_log_id(*log).to_vec()),
                int(*ts),
                Value::Array(previous.iter().map(|t| Value::Bytes(tag_hash(*t).to_vec())).collect()),
            ])),
        }
    }

    pub fn prune(&self) -> bool {
        match self {
            ExtSpec::Custom { prune, .. } | ExtSpec::NodeBasic { prune, .. } => *prune,
            _ => false,
        }
    }

    pub fn log(&self) -> u8 {
        match self {
            ExtSpec::Unit => 0,
            ExtSpec::Custom { log, .. } | ExtSpec::NodeBasic { log, .. } | ExtSpec::NodeCausal { log, .. } => *log,
        }
    }
}

pub fn value_bytes(v: &Value) -> Vec<u8> {
    let mut out = Vec::new();
    ciborium::ser::into_writer(v, &mut out).expect("writing CBOR into a Vec cannot fail");
    out
}

/// Extension types the harness can build from an [`ExtSpec`].
pub trait Flavor: Extensions + PartialEq + Send + Sync + 'static {
    const KIND: ExtKind;
    type Log: LogId + std::fmt::Debug + Send + Sync;
    /// Builds the extension value. Panics (harness bug) when the spec is of another kind.
    fn build(spec: &ExtSpec) -> Self;
    /// What a caller of `ingest_operation` derives from the header: (log id, prune flag).
    fn route(&self) -> (Self::Log, bool);
}

impl Flavor for () {
    const KIND: ExtKind = ExtKind::Unit;
    type Log = u64;
    fn build(spec: &ExtSpec) -> Self {
        assert!(matches!(spec, ExtSpec::Unit), "unit flavor built from {spec:?}");
    }
    fn route(&self) -> (u64, bool) {
        (0, false)
    }
}

impl Flavor for CustomExt {
    const KIND: ExtKind = ExtKind::Custom;
    type Log = u64;
    fn build(spec: &ExtSpec) -> Self {
        match spec {
            ExtSpec::Custom { log, prune, tags, note } => CustomExt {
                log: *log,
                prune: *prune,
                tags: tags.clone(),
                note: note.clone(),
            },
            other => panic!("custom flavor built from {other:?}"),
        }
    }
    fn route(&self) -> (u64, bool) {
        (self.log as u64, self.prune)
    }
}

impl Flavor for NodeExt {
    const KIND: ExtKind = ExtKind::Node;
    type Log = p2panda::operation::LogId;
    /// The Causal variant has no public constructor and the Basic one no way to choose log id and
    /// timestamp, so Node extensions are built the way a receiving node gets them: by decoding
    /// their wire form.
    fn build(spec: &ExtSpec) -> Self {
        assert_eq!(spec.kind(), ExtKind::Node, "node flavor built from {spec:?}");
        let bytes = value_bytes(&spec.to_value().unwrap());
        decode_cbor::<NodeExt, _>(&bytes[..]).expect("wire form of Node extensions decodes")
    }
    fn route(&self) -> (Self::Log, bool) {
        (self.log_id(), self.prune_flag().is_set())
    }
}

/// Seed of an author's signing key.
pub fn seed32(author: u8) -> [u8; 32] {
    let mut s = [0x5au8; 32];
    s[0] = author;
    s[7] = author.wrapping_mul(31).wrapping_add(7);
    s[31] = 0xc3;
    s
}

pub fn dalek_key(author: u8) -> ed25519_dalek::SigningKey {
    ed25519_dalek::SigningKey::from_bytes(&seed32(author))
}

pub fn public_key(author: u8) -> H32 {
    dalek_key(author).verifying_key().to_bytes()
}

/// All header fields except the signature, as plain bytes/numbers.
#[derive(Clone, Debug, PartialEq, Eq)]
pub struct Fields {
    pub version: u16,
    pub key: H32,
    pub size: u32,
    pub hash: Option<H32>,
    pub seq: u32,
    pub backlink: Option<H32>,
    pub ext: ExtSpec,
}

impl Fields {
    /// Wire elements in specification order; the signature goes to index 2 when present.
    fn elements(&self, sig: Option<&Sig>) -> Vec<Value> {
        let mut v = vec![int(self.version as u64), Value::Bytes(self.key.to_vec())];
        if let Some(sig) = sig {
            v.push(Value::Bytes(sig.to_vec()));
        }
        v.push(int(self.size as u64));
        if let Some(h) = &self.hash {
            v.push(Value::Bytes(h.to_vec()));
        }
        v.push(int(self.seq as u64));
        if let Some(b) = &self.backlink {
            v.push(Value::Bytes(b.to_vec()));
        }
        if let Some(e) = self.ext.to_value() {
            v.push(e);
        }
        v
    }

    /// Independent encoding of the unsigned header (what the author signs).
    pub fn unsigned_bytes(&self) -> Vec<u8> {
        value_bytes(&Value::Array(self.elements(None)))
    }

    /// Independent encoding of the signed header (what goes over the wire).
    pub fn signed_bytes(&self, sig: &Sig) -> Vec<u8> {
        value_bytes(&Value::Array(self.elements(Some(sig))))
    }

    pub fn sign_with(&self, key: &ed25519_dalek::SigningKey) -> Sig {
        key.sign(&self.unsigned_bytes()).to_bytes()
    }

    /// In-memory header value of the code under test with exactly these field values.
    pub fn header<E: Flavor>(&self, sig: Option<&Sig>) -> Header<E> {
        Header {
            version: self.version,
            verifying_key: VerifyingKey::from_bytes(&self.key).expect("factory keys are valid points"),
            signature: sig.map(Signature::from_bytes),
            payload_size: self.size,
            payload_hash: self.hash.map(Hash::from_bytes),
            seq_num: self.seq,
            backlink: self.backlink.map(Hash::from_bytes),
            extensions: E::build(&self.ext),
        }
    }
}

pub fn operation<E: Flavor>(header: Header<E>, body: Option<&[u8]>) -> Operation<E> {
    Operation {
        // Every real caller derives the id from the header it received.
        hash: header.hash(),
        header,
        body: body.map(Body::new),
    }
}

/// Payload fields a well-behaved author derives from a body.
pub fn payload_fields(body: Option<&[u8]>) -> (u32, Option<H32>) {
    match body {
        Some(b) if !b.is_empty() => (b.len() as u32, Some(digest(b))),
        _ => (0, None),
    }
}

/// Deterministic small body: `len` bytes derived from `fill`; 0 = no body.
pub fn small_body(len: u8, fill: u8) -> Option<Vec<u8>> {
    if len == 0 {
        None
    } else {
        Some((0..len).map(|i| fill.wrapping_add(i.wrapping_mul(17))).collect())
    }
}

/// One valid, signed operation with everything needed to mutate it again.
#[derive(Clone, Debug)]
pub struct Built<E> {
    pub fields: Fields,
    pub sig: Sig,
    pub body: Option<Vec<u8>>,
    pub op: Operation<E>,
}

impl<E: Flavor> Built<E> {
    pub fn new(author: u8, seq: u32, backlink: Option<H32>, ext: ExtSpec, body: Option<Vec<u8>>) -> Self {
        let body = body.filter(|b| !b.is_empty());
        let (size, hash) = payload_fields(body.as_deref());
        let fields = Fields {
            version: 1,
            key: public_key(author),
            size,
            hash,
            seq,
            backlink,
            ext,
        };
        let sig = fields.sign_with(&dalek_key(author));
        let op = operation(fields.header::<E>(Some(&sig)), body.as_deref());
        Built { fields, sig, body, op }
    }

    pub fn id(&self) -> H32 {
        *self.op.hash.as_bytes()
    }
}

/// True chain of one author in one log: seq 0.., each backlinking to its predecessor's id.
pub fn build_chain<E: Flavor>(author: u8, items: &[(ExtSpec, Option<Vec<u8>>)]) -> Vec<Built<E>> {
    let mut out: Vec<Built<E>> = Vec::with_capacity(items.len());
    for (i, (ext, body)) in items.iter().enumerate() {
        let backlink = out.last().map(|p| p.id());
        out.push(Built::new(author, i as u32, backlink, ext.clone(), body.clone()));
    }
    out
}
