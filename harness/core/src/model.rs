//! B3 Reference log model: `(author, log) -> seq -> entry` with the documented rules of ingest
//! and prune, written from the property statements (C03, C05) and the doc comments of
//! `ingest_operation` / `validate_prunable_backlink` / `validate_backlink`.

use std::collections::{BTreeMap, BTreeSet};

use crate::factory::H32;

#[derive(Clone, Debug, PartialEq, Eq)]
pub struct Entry {
    pub id: H32,
    pub prune: bool,
    pub backlink: Option<H32>,
}

#[derive(Clone, Copy, Debug, PartialEq, Eq)]
pub enum Verdict {
    /// Stored now (`Ok(true)`).
    Inserted,
    /// Valid but already stored (`Ok(false)`).
    Exists,
    /// Rejected (`Err(InvalidOperation)`), with the rule that rejects it.
    Rejected(&'static str),
}

pub type LogKey = (H32, u64);

#[derive(Clone, Debug, Default)]
pub struct RefLogs {
    pub logs: BTreeMap<LogKey, BTreeMap<u32, Entry>>,
    ids: BTreeSet<H32>,
}

/// What the model needs to know about a delivered operation.
#[derive(Clone, Debug)]
pub struct Delivered {
    /// Outcome of the reference validity predicate (C01 oracle) for header + body.
    pub valid: bool,
    pub id: H32,
    pub author: H32,
    pub log: u64,
    pub seq: u32,
    pub backlink: Option<H32>,
    pub prune: bool,
}

impl RefLogs {
    pub fn latest(&self, key: &LogKey) -> Option<(u32, &Entry)> {
        self.logs.get(key).and_then(|l| l.iter().next_back()).map(|(s, e)| (*s, e))
    }

    pub fn height(&self, key: &LogKey) -> Option<u32> {
        self.latest(key).map(|(s, _)| s)
    }

    pub fn entries(&self, key: &LogKey) -> Vec<(u32, H32)> {
        self.logs
            .get(key)
            .map(|l| l.iter().map(|(s, e)| (*s, e.id)).collect())
            .unwrap_or_default()
    }

    pub fn contains(&self, id: &H32) -> bool {
        self.ids.contains(id)
    }

    /// Decides a delivery without changing the model.
    pub fn decide(&self, d: &Delivered) -> Verdict {
        if !d.valid {
            return Verdict::Rejected("not a valid operation");
        }
        if self.ids.contains(&d.id) {
            return Verdict::Exists;
        }
        let latest = self.latest(&(d.author, d.log));
        if d.seq == 0 {
            return match latest {
                None => Verdict::Inserted,
                Some(_) => Verdict::Rejected("seq 0 on a log that already progressed"),
            };
        }
        if d.prune {
            // A prune point does not need its predecessor, but it must still extend the log.
            return match latest {
                None => Verdict::Inserted,
                Some((h, _)) if d.seq > h => Verdict::Inserted,
                Some(_) => Verdict::Rejected("prune-flagged operation does not extend the log (seq <= height)"),
            };
        }
        match latest {
            None => Verdict::Rejected("missing prefix without prune flag"),
            Some((h, _)) if h.checked_add(1) != Some(d.seq) => Verdict::Rejected("non-incremental seq"),
            Some((_, e)) if d.backlink != Some(e.id) => Verdict::Rejected("wrong backlink"),
            Some(_) => Verdict::Inserted,
        }
    }

    /// Applies a delivery; returns the verdict.
    pub fn ingest(&mut self, d: &Delivered) -> Verdict {
        let v = self.decide(d);
        if v == Verdict::Inserted {
            self.ids.insert(d.id);
            self.logs.entry((d.author, d.log)).or_default().insert(
                d.seq,
                Entry {
                    id: d.id,
                    prune: d.prune,
                    backlink: d.backlink,
                },
            );
        }
        v
    }

    /// Deletes every entry of the log with `seq < until`; returns how many.
    pub fn prune(&mut self, key: &LogKey, until: u32) -> u64 {
        let Some(log) = self.logs.get_mut(key) else {
            return 0;
        };
        let keep = log.split_off(&until);
        let gone = std::mem::replace(log, keep);
        for e in gone.values() {
            self.ids.remove(&e.id);
        }
        gone.len() as u64
    }
}
