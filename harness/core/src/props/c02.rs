//! C02 Header encoding round-trips and is a deterministic function of the header.
//!
//! For every generated valid signed header (extension types `()`, a custom serde struct, Node
//! Basic, Node Causal with 0..8 `previous` hashes):
//! * the header is signed over its own encoding and must verify,
//! * its bytes are decoded 8 times (fresh values, fresh `HashSet` state each time): all decodes
//!   are equal values, encode to the original bytes, have the original id and still verify
//!   (`oracles::roundtrip_oracle`),
//! * the header is rebuilt from the same field values (for Causal also with `previous` listed in
//!   another order and with a duplicate): equal values must encode to identical bytes,
//! * the same header as an independent peer implementation writes it (harness encoder, harness
//!   signature) must decode, and all its decodes must agree with each other.
//!
//! The oracle never assumes *which* order a set is written in, only that equal values encode
//! equally.

use engine::proptest::prelude::*;
use engine::{CaseOk, CaseResult, Ctx, Part, ensure};
use ed25519_dalek::Signer;
use p2panda_core::cbor::decode_cbor;
use p2panda_core::{Header, Signature, validate_header};
use serde::{Deserialize, Serialize};

use crate::factory::{CustomExt, ExtKind, ExtSpec, Fields, Flavor, NodeExt, dalek_key, payload_fields, public_key, small_body, tag_hash};
use crate::oracles::{Roundtrip, roundtrip_oracle};

const DECODES: usize = 8;

#[derive(Clone, Debug, Serialize, Deserialize)]
pub struct HeaderCase {
    author: u8,
    body_len: u8,
    body_fill: u8,
    seq: u32,
    backlink: u16,
    ext: ExtSpec,
}

impl HeaderCase {
    fn fields(&self) -> Fields {
        let body = small_body(self.body_len, self.body_fill);
        let (size, hash) = payload_fields(body.as_deref());
        Fields {
            version: 1,
            key: public_key(self.author),
            size,
            hash,
            seq: self.seq,
            backlink: (self.seq > 0).then(|| tag_hash(self.backlink)),
            ext: self.ext.clone(),
        }
    }
}

fn check_flavor<E: Flavor>(c: &HeaderCase) -> CaseResult {
    let fields = c.fields();
    let key = dalek_key(c.author);

    // 1. Build the value, sign it over its own encoding (what `Header::sign` does, with an
    //    independent signer) and require that it verifies.
    let mut h: Header<E> = fields.header::<E>(None);
    let unsigned = h.to_bytes();
    ensure!(h.to_bytes() == unsigned, "encoding the same unsigned header value twice gives different bytes");
    let sig = key.sign(&unsigned).to_bytes();
    h.signature = Some(Signature::from_bytes(&sig));
    ensure!(h.verify(), "a header signed over its own encoding does not verify");
    ensure!(validate_header(&h).is_ok(), "generated header does not pass validation: {:?}", validate_header(&h));
    let bytes = h.to_bytes();
    let id = h.hash();

    // 2. Repeated decodes of its bytes.
    match roundtrip_oracle::<E>(&bytes, DECODES)? {
        Roundtrip::Valid => {}
        other => return Err(format!("bytes of a valid header are classified {other:?} after decoding")),
    }
    let back: Header<E> = decode_cbor(&bytes[..]).map_err(|e| format!("decode failed: {e}"))?;
    ensure!(back == h, "decode(encode(h)) != h");

    // 3. The same value built a second time.
    let again: Header<E> = fields.header::<E>(Some(&sig));
    ensure!(again == h, "harness bug: rebuilt header is not equal");
    ensure!(again.to_bytes() == bytes, "two equal header values encode to different bytes (rebuilt from the same fields)");
    ensure!(again.hash() == id, "two equal header values have different ids");
    ensure!(again.verify(), "an equal header value built separately does not verify");

    // 3b. Causal: the set listed in another order and with a duplicate is the same value.
    let mut permuted_equal = false;
    if let ExtSpec::NodeCausal { log, ts, previous } = &c.ext {
        let mut p: Vec<u16> = previous.iter().rev().copied().collect();
        if let Some(first) = previous.first() {
            p.push(*first);
        }
        let mut f2 = fields.clone();
        f2.ext = ExtSpec::NodeCausal { log: *log, ts: *ts, previous: p };
        let other: Header<E> = f2.header::<E>(Some(&sig));
        if other == h {
            permuted_equal = true;
            ensure!(other.to_bytes() == bytes, "two equal header values encode to different bytes (same `previous` set listed in another order)");
            ensure!(other.hash() == id, "two equal header values have different ids (same `previous` set listed in another order)");
            ensure!(other.verify(), "an equal header value (same `previous` set listed in another order) does not verify");
        }
    }

    // 4. The header as a peer's independent implementation writes and signs it.
    let peer_sig = fields.sign_with(&key);
    let peer_bytes = fields.signed_bytes(&peer_sig);
    let peer = roundtrip_oracle::<E>(&peer_bytes, DECODES).map_err(|e| format!("peer-encoded header: {e}"))?;
    ensure!(peer != Roundtrip::Undecodable, "well-formed peer-encoded header does not decode");
    let set_size = match &c.ext {
        ExtSpec::NodeCausal { previous, .. } => {
            let mut p = previous.clone();
            p.sort();
            p.dedup();
            p.len()
        }
        _ => 0,
    };
    let order_free = set_size < 2 && !matches!(&c.ext, ExtSpec::NodeCausal { previous, .. } if previous.len() != set_size);
    if order_free {
        // No set order involved: the specification encoding is unique, both must agree.
        ensure!(peer == Roundtrip::Valid, "peer-encoded header (unique canonical form) does not validate");
        ensure!(peer_bytes == bytes, "independent encoding of the same header differs: {} vs {}", hex::encode(&peer_bytes), hex::encode(&bytes));
    }

    let collection = match &c.ext {
        ExtSpec::Custom { tags, .. } => tags.len(),
        ExtSpec::NodeCausal { .. } => set_size,
        _ => 0,
    };
    let both_optional = fields.hash.is_some() && fields.backlink.is_some();
    Ok(CaseOk::nontrivial(collection >= 2 || both_optional)
        .label(match E::KIND {
            ExtKind::Unit => "ext_unit",
            ExtKind::Custom => "ext_custom",
            ExtKind::Node => "ext_node",
        })
        .label_if(matches!(c.ext, ExtSpec::NodeBasic { .. }), "node_basic")
        .label_if(matches!(c.ext, ExtSpec::NodeCausal { .. }), "node_causal")
        .label_if(set_size >= 2, "causal_previous_ge2")
        .label_if(set_size >= 5, "causal_previous_ge5")
        .label_if(permuted_equal && set_size >= 2, "causal_permuted_equal_value")
        .label_if(both_optional, "both_optional_fields")
        .label_if(fields.hash.is_none() && fields.backlink.is_none(), "no_optional_fields")
        .label_if(peer == Roundtrip::Valid, "peer_encoding_valid")
        .label_if(peer == Roundtrip::Invalid, "peer_encoding_other_set_order"))
}

fn check(c: &HeaderCase) -> CaseResult {
    // Encoding and decoding must not depend on "now": put the (mock) wall clock somewhere that is
    // neither 0 nor any generated timestamp, so that a decoder substituting the current time for a
    // field value cannot go unnoticed (the mock clock of p2panda-core's test_utils starts at 0).
    mock_instant::thread_local::MockClock::set_system_time(std::time::Duration::from_micros(1_790_000_000_123_457));
    match c.ext.kind() {
        ExtKind::Unit => check_flavor::<()>(c),
        ExtKind::Custom => check_flavor::<CustomExt>(c),
        ExtKind::Node => check_flavor::<NodeExt>(c),
    }
}

fn timestamp() -> impl Strategy<Value = u64> {
    prop_oneof![
        2 => Just(0u64),
        3 => 0u64..100_000,
        3 => any::<u64>(),
        1 => Just(u64::MAX),
    ]
}

pub fn ext_spec() -> impl Strategy<Value = ExtSpec> {
    prop_oneof![
        1 => Just(ExtSpec::Unit),
        2 => (0u8..4, any::<bool>(), prop::collection::vec(prop_oneof![0u32..30, any::<u32>()], 0..6), "[a-z]{0,8}")
            .prop_map(|(log, prune, tags, note)| ExtSpec::Custom { log, prune, tags, note }),
        2 => (0u8..4, timestamp(), any::<bool>()).prop_map(|(log, ts, prune)| ExtSpec::NodeBasic { log, ts, prune }),
        4 => (0u8..4, timestamp(), prop::collection::vec(0u16..64, 0..=8))
            .prop_map(|(log, ts, previous)| ExtSpec::NodeCausal { log, ts, previous }),
    ]
}

fn header_case() -> impl Strategy<Value = HeaderCase> {
    (
        0u8..6,
        prop_oneof![2 => Just(0u8), 3 => 1u8..40],
        any::<u8>(),
        prop_oneof![3 => Just(0u32), 3 => 1u32..50, 2 => any::<u32>(), 1 => Just(u32::MAX)],
        0u16..16,
        ext_spec(),
    )
        .prop_map(|(author, body_len, body_fill, seq, backlink, ext)| HeaderCase {
            author,
            body_len,
            body_fill,
            seq,
            backlink,
            ext,
        })
}

pub fn run(mut ctx: Ctx) -> ! {
    crate::fuzz_seed::c02_fuzz(&mut ctx);
    ctx.assume("each header is decoded 8 times; on a tree where a set is written in HashSet iteration order detection per case is probabilistic (RandomState of the code under test), after the repair the run is deterministic");
    ctx.run_prop(
        Part::new(
            "valid_headers",
            "valid signed headers over all field shapes (payload present/absent, seq 0/small/any/u32::MAX) x extension types (), custom serde struct, Node Basic (any timestamp/flag), Node Causal with 0..8 previous hashes; each decoded 8 times, rebuilt from the same fields, and written by an independent encoder; non-trivial = extension collection with >= 2 elements or header using both optional fields",
            4_000,
            200_000,
        )
        .min_nontrivial(0.3),
        header_case,
        check,
    );
    ctx.finish()
}
