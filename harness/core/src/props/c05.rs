//! C05 Pruned log prefixes never come back.
//!
//! History invariant, independent of the reference model: with P(log) = highest seq of a
//! prune-flagged operation that `ingest_operation` accepted for the log so far,
//! * no later `ingest_operation` call stores (`Ok(true)`) an operation of that log with
//!   seq < P(log), and
//! * in pipeline mode (every accepted prune-flagged operation is followed by the prune step, as
//!   in the Node pipeline) no stored entry of the log has seq < P(log) after any step.

use std::collections::BTreeMap;
use std::time::Duration;

use engine::{CaseOk, CaseResult, Ctx, Part, ensure};

use crate::factory::{CustomExt, H32};
use crate::fixture::{self, Outcome};
use crate::script::{Kind, Script, claimed_cell, strategies};

async fn run_script(s: &Script) -> CaseResult {
    let world = s.materialize();
    let store = fixture::store().await;
    let mut prune_point: BTreeMap<(H32, u64), u32> = BTreeMap::new();
    let (mut late_older_prune, mut late_older_plain, mut points_applied, mut pruned) = (0, 0, 0, 0u64);

    for (step, d) in world.deliveries.iter().enumerate() {
        let cell = claimed_cell(&d.op);
        let key = (*cell.0.as_bytes(), cell.1);
        let seq = d.op.header.seq_num;
        let flagged = d.op.header.extensions.prune;
        let p_before = prune_point.get(&key).copied();
        let below = p_before.map(|p| seq < p).unwrap_or(false);
        if below && matches!(d.kind, Kind::True | Kind::Duplicate) {
            if flagged {
                late_older_prune += 1;
            } else {
                late_older_plain += 1;
            }
        }

        let outcome = fixture::ingest(&store, &d.op).await;
        if below {
            ensure!(
                outcome != Outcome::Inserted,
                "step {step}: operation seq {seq} (prune flag {flagged}) was stored although a prune-flagged operation at seq {} had already been ingested for this log",
                p_before.unwrap()
            );
        }
        if flagged && outcome == Outcome::Inserted {
            let e = prune_point.entry(key).or_insert(seq);
            *e = (*e).max(seq);
            points_applied += 1;
        }
        if s.pipeline && flagged && !matches!(outcome, Outcome::Invalid(_)) {
            pruned += fixture::prune::<CustomExt>(&store, &cell.0, &cell.1, seq).await;
        }
        if s.pipeline {
            // Every log that has a prune point (cheap: few logs per script).
            for ((author, log), p) in &prune_point {
                let author = p2panda_core::VerifyingKey::from_bytes(author).unwrap();
                let entries = fixture::log_entries::<CustomExt>(&store, &author, log).await;
                let seqs: Vec<u32> = entries.iter().map(|e| e.0).collect();
                ensure!(
                    seqs.iter().all(|s| s >= p),
                    "step {step} (delivered seq {seq}, prune flag {flagged}, ingest {}): log holds entries below its prune point {p}: stored seqs {seqs:?}",
                    outcome.class()
                );
            }
        }
    }

    Ok(CaseOk::nontrivial(late_older_prune > 0)
        .label_if(late_older_plain > 0, "older_plain_op_after_newer_prune_point")
        .label_if(late_older_prune >= 2, "two_or_more_late_older_prune_ops")
        .label_if(points_applied >= 2, "two_or_more_prune_points_applied")
        .label_if(pruned > 0, "entries_pruned")
        .label_if(s.pipeline, "pipeline_mode")
        .label_if(!s.pipeline, "ingest_only_mode"))
}

fn check_script(s: &Script) -> CaseResult {
    fixture::runtime().block_on(run_script(s))
}

pub fn run(mut ctx: Ctx) -> ! {
    let _watchdog = engine::Watchdog::arm("C05 (SQLite worker threads)", Duration::from_secs(ctx.pick(900, 7200)));
    ctx.assume("authors do not equivocate; log id and prune flag come from the signed header extensions");
    ctx.assume("pipeline mode runs LogStore::prune_entries(author, log, seq) after every prune-flagged operation ingest did not fail on (the LogPrune processor's only store call)");
    let max_len = ctx.pick(12usize, 16usize);
    ctx.run_prop(
        Part::new(
            "late_prune_points",
            "1..2 authors x 1..2 logs, chains of 4..12 operations with at least two prune points; delivery biased to 'newer prune segment first, older operations (flagged or not) later' plus random / reversed / jittered orders, drops and duplicates; ingest+prune (80%) or ingest only; non-trivial = an older prune-flagged operation is delivered after a newer prune point was ingested",
            500,
            20_000,
        )
        .min_nontrivial(0.3)
        .shrink_iters(400),
        move || strategies::c05_script(max_len),
        check_script,
    );
    crate::props::c05_concurrent::part(&mut ctx);
    ctx.finish()
}
