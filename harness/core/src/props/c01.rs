//! C01 Only authentic, well-formed operations are ingested or delivered.
//!
//! (a) `arbitrary_headers`: every header field drawn independently; `validate_operation` must
//!     agree (both directions) with the reference predicate `oracles::reference_valid`
//!     (independent parse + independent ed25519 `verify_strict` over the harness' own re-encoding
//!     of the unsigned header) and with the rule evaluation on the generated field values.
//! (b) `single_mutations`: a store pre-filled with a valid prefix of a log; field-level and
//!     byte-level single mutations of the next valid operation are pushed through
//!     `ingest_operation`: rejected unless the mutant is still a valid operation by the reference
//!     predicate (semantically void mutation), `has_operation(mutant)` false, logs/heights/topic
//!     association unchanged, a following `begin()` works, and at the end the untampered
//!     operation is accepted exactly like on a control store that never saw the mutants.
//!
//! The node-level part (c) of DESIGN.md lives in the node group.

use std::time::Duration;

use engine::proptest::prelude::*;
use engine::{CaseOk, CaseResult, Ctx, Part, ensure};
use p2panda_core::cbor::decode_cbor;
use p2panda_core::{Header, Operation, VerifyingKey, validate_operation};
use serde::{Deserialize, Serialize};

use crate::factory::{
    Built, CustomExt, ExtKind, ExtSpec, Fields, Flavor, NodeExt, Sig, build_chain, dalek_key, operation, public_key, small_body, tag_hash,
};
use crate::fixture::{self, Outcome};
use crate::mutators::strategies::{byte_mutation, field_mutation};
use crate::mutators::{ByteMutation, FieldMutation};
use crate::oracles::{reference_rules, reference_valid};
use crate::props::c02::ext_spec;

// ---------------------------------------------------------------------------------------------
// (a) arbitrary headers

#[derive(Clone, Debug, Serialize, Deserialize)]
enum Payload {
    /// size 0, no hash
    Absent,
    /// size and hash of the case's body
    Proper,
    /// size > 0 without hash
    SizeOnly(u32),
    /// hash with size 0
    HashOnly(u16),
    /// size of the body, unrelated hash
    WrongHash(u16),
    /// hash of the body, other size
    WrongSize(u32),
}

#[derive(Clone, Debug, Serialize, Deserialize)]
enum SigMode {
    /// Claimed author signs the unsigned header.
    Right,
    /// Somebody else signs it.
    Other(u8),
    /// Claimed author signed, then seq was changed by this delta (stale signature).
    Stale(i8),
    Random(u64),
    Absent,
}

#[derive(Clone, Debug, Serialize, Deserialize)]
enum BodyMode {
    Absent,
    /// The case's body (the one `Payload::Proper` describes).
    Own,
    Unrelated(u8),
    Empty,
}

#[derive(Clone, Debug, Serialize, Deserialize)]
struct Arbitrary {
    version: u16,
    author: u8,
    body_len: u8,
    body_fill: u8,
    payload: Payload,
    seq: u32,
    backlink: Option<u16>,
    sig: SigMode,
    body: BodyMode,
    ext: ExtSpec,
}

fn splitmix(mut x: u64) -> u64 {
    x = x.wrapping_add(0x9E37_79B9_7F4A_7C15);
    let mut z = x;
    z = (z ^ (z >> 30)).wrapping_mul(0xBF58_476D_1CE4_E5B9);
    z = (z ^ (z >> 27)).wrapping_mul(0x94D0_49BB_1331_11EB);
    z ^ (z >> 31)
}

fn check_arbitrary_flavor<E: Flavor>(c: &Arbitrary) -> CaseResult {
    let own_body = small_body(c.body_len.max(1), c.body_fill).unwrap();
    let (size, hash) = match &c.payload {
        Payload::Absent => (0, None),
        Payload::Proper => (own_body.len() as u32, Some(crate::factory::digest(&own_body))),
        Payload::SizeOnly(s) => ((*s).max(1), None),
        Payload::HashOnly(t) => (0, Some(tag_hash(*t))),
        Payload::WrongHash(t) => (own_body.len() as u32, Some(tag_hash(*t))),
        Payload::WrongSize(s) => {
            let s = if *s == own_body.len() as u32 { s.wrapping_add(1) } else { *s };
            (s.max(1), Some(crate::factory::digest(&own_body)))
        }
    };
    let fields = Fields {
        version: c.version,
        key: public_key(c.author),
        size,
        hash,
        seq: c.seq,
        backlink: c.backlink.map(tag_hash),
        ext: c.ext.clone(),
    };
    // The signature is made over the *code under test's* encoding of exactly the header value
    // that is validated (what `Header::sign` does), with an independent signer.
    let unsigned_of = |f: &Fields| f.header::<E>(None).to_bytes();
    let sig: Option<Sig> = match &c.sig {
        SigMode::Right => Some(ed25519_dalek::Signer::sign(&dalek_key(c.author), &unsigned_of(&fields)).to_bytes()),
        SigMode::Other(a) => {
            let a = if public_key(*a) == fields.key { a.wrapping_add(1) } else { *a };
            Some(ed25519_dalek::Signer::sign(&dalek_key(a), &unsigned_of(&fields)).to_bytes())
        }
        SigMode::Stale(d) => {
            let mut old = fields.clone();
            old.seq = old.seq.wrapping_add(if *d == 0 { 1 } else { *d as i32 as u32 });
            Some(ed25519_dalek::Signer::sign(&dalek_key(c.author), &unsigned_of(&old)).to_bytes())
        }
        SigMode::Random(seed) => {
            let mut s = [0u8; 64];
            let mut x = *seed;
            for chunk in s.chunks_mut(8) {
                x = splitmix(x);
                chunk.copy_from_slice(&x.to_le_bytes());
            }
            Some(s)
        }
        SigMode::Absent => None,
    };
    let body: Option<Vec<u8>> = match &c.body {
        BodyMode::Absent => None,
        BodyMode::Own => Some(own_body.clone()),
        BodyMode::Unrelated(x) => Some(vec![*x, 0xaa, x.wrapping_mul(3), 0x01]),
        BodyMode::Empty => Some(vec![]),
    };

    // Rules on the generated values (doc comment of `validate_operation`).
    let r_sig = matches!(c.sig, SigMode::Right);
    let r_version = c.version == 1;
    let r_payload = fields.hash.is_some() == (fields.size > 0);
    let r_link = fields.backlink.is_some() == (fields.seq > 0);
    let r_body = match &body {
        None => true,
        Some(b) => fields.hash == Some(crate::factory::digest(b)) && fields.size as usize == b.len(),
    };
    let satisfied = [r_sig, r_version, r_payload, r_link, r_body].iter().filter(|b| **b).count();
    let expected = satisfied == 5;

    let header: Header<E> = fields.header::<E>(sig.as_ref());
    let canonical = header.to_bytes();
    let op: Operation<E> = operation(header, body.as_deref());
    let got = validate_operation(&op);
    let rules = reference_rules(&canonical, body.as_deref(), E::KIND);
    let reference = rules.all();

    ensure!(
        got.is_ok() == reference,
        "validate_operation = {:?} but the reference predicate says valid = {reference} (rules {rules:?}); header {}",
        got,
        hex::encode(&canonical)
    );
    ensure!(
        reference == expected,
        "reference predicate says valid = {reference} but the generated field values say {expected} (sig {r_sig}, version {r_version}, payload {r_payload}, link {r_link}, body {r_body})"
    );

    let only = |r: bool| satisfied == 4 && !r;
    Ok(CaseOk::nontrivial(satisfied >= 3)
        .label_if(expected, "valid_accepted")
        .label_if(!expected, "invalid_rejected")
        .label_if(only(r_sig), "only_signature_broken")
        .label_if(only(r_version), "only_version_broken")
        .label_if(only(r_payload), "only_payload_info_broken")
        .label_if(only(r_link), "only_seq_backlink_broken")
        .label_if(only(r_body), "only_body_broken")
        .label_if(expected && body.is_some(), "valid_with_body")
        .label(match E::KIND {
            ExtKind::Unit => "ext_unit",
            ExtKind::Custom => "ext_custom",
            ExtKind::Node => "ext_node",
        }))
}

fn check_arbitrary(c: &Arbitrary) -> CaseResult {
    match c.ext.kind() {
        ExtKind::Unit => check_arbitrary_flavor::<()>(c),
        ExtKind::Custom => check_arbitrary_flavor::<CustomExt>(c),
        ExtKind::Node => check_arbitrary_flavor::<NodeExt>(c),
    }
}

fn arbitrary() -> impl Strategy<Value = Arbitrary> {
    let payload = prop_oneof![
        3 => Just(Payload::Absent),
        5 => Just(Payload::Proper),
        1 => prop_oneof![Just(1u32), any::<u32>()].prop_map(Payload::SizeOnly),
        1 => (0u16..8).prop_map(Payload::HashOnly),
        1 => (0u16..8).prop_map(Payload::WrongHash),
        1 => prop_oneof![1u32..64, any::<u32>()].prop_map(Payload::WrongSize),
    ];
    let sig = prop_oneof![
        12 => Just(SigMode::Right),
        2 => (0u8..6).prop_map(SigMode::Other),
        2 => any::<i8>().prop_map(SigMode::Stale),
        1 => any::<u64>().prop_map(SigMode::Random),
        1 => Just(SigMode::Absent),
    ];
    let body = prop_oneof![
        4 => Just(BodyMode::Absent),
        6 => Just(BodyMode::Own),
        1 => any::<u8>().prop_map(BodyMode::Unrelated),
        1 => Just(BodyMode::Empty),
    ];
    // seq/backlink drawn independently, biased towards the consistent combinations.
    let link = prop_oneof![
        4 => Just((0u32, None)),
        5 => (prop_oneof![1u32..20, any::<u32>()], 0u16..8).prop_map(|(s, b)| (s.max(1), Some(b))),
        1 => (0u16..8).prop_map(|b| (0u32, Some(b))),
        1 => prop_oneof![1u32..20, any::<u32>()].prop_map(|s| (s.max(1), None)),
    ];
    (
        prop_oneof![8 => Just(1u16), 1 => 0u16..4, 1 => any::<u16>()],
        0u8..6,
        1u8..40,
        any::<u8>(),
        payload,
        link,
        sig,
        body,
        // Causal headers with two or more `previous` hashes do not have a deterministic encoding
        // on a tree with the C02 defect; their (in)validity is C02's subject, not C01's.
        prop_oneof![1 => Just(ExtSpec::Unit), 4 => ext_spec()].prop_map(|e| match e {
            ExtSpec::NodeCausal { log, ts, mut previous } => {
                previous.truncate(1);
                ExtSpec::NodeCausal { log, ts, previous }
            }
            other => other,
        }),
    )
        .prop_map(|(version, author, body_len, body_fill, payload, (seq, backlink), sig, body, ext)| Arbitrary {
            version,
            author,
            body_len,
            body_fill,
            payload,
            seq,
            backlink,
            sig,
            body,
            ext,
        })
}

// ---------------------------------------------------------------------------------------------
// (b) single mutations on a pre-filled store

#[derive(Clone, Debug, Serialize, Deserialize)]
struct OpSpec {
    prune: bool,
    body_len: u8,
    body_fill: u8,
    tags: Vec<u32>,
}

#[derive(Clone, Debug, Serialize, Deserialize)]
struct Mutations {
    node_flavor: bool,
    author: u8,
    log: u8,
    chain: Vec<OpSpec>,
    /// Which operation of the chain is the target; everything before it is pre-filled.
    target: u16,
    fields: Vec<FieldMutation>,
    bytes: Vec<ByteMutation>,
}

#[derive(Default)]
struct Tally {
    rejected: usize,
    undecodable: usize,
    same_header: usize,
    void: usize,
    noop: usize,
    stored_target: usize,
    classes: Vec<&'static str>,
}

async fn expect_rejected<E: Flavor>(
    store: &p2panda_store::SqliteStore,
    what: &str,
    mutant: &Operation<E>,
    home: &(VerifyingKey, E::Log),
    tally: &mut Tally,
) -> Result<(), String> {
    let canonical = mutant.header.to_bytes();
    let body = mutant.body.as_ref().map(|b| b.to_bytes());
    if reference_valid(&canonical, body.as_deref(), E::KIND) {
        // Semantically void mutation (still a valid operation of its author): nothing to demand.
        tally.void += 1;
        return Ok(());
    }
    // Small universe around the mutant: its claimed (author, log) and the target's.
    let (mlog, _) = mutant.header.extensions.route();
    let universe = vec![
        home.clone(),
        (mutant.header.verifying_key, mlog.clone()),
        (home.0, mlog),
        (mutant.header.verifying_key, home.1.clone()),
    ];
    let before = fixture::snapshot::<E>(store, &universe).await;
    let known_before = fixture::has_operation::<E>(store, &mutant.hash).await;
    let outcome = fixture::ingest(store, mutant).await;
    ensure!(
        matches!(outcome, Outcome::Invalid(_)),
        "{what}: tampered operation was not rejected, ingest_operation returned {} (header {})",
        outcome.class(),
        hex::encode(&canonical)
    );
    fixture::begin_works(store).await.map_err(|e| format!("{what}: after the rejection {e}"))?;
    ensure!(
        fixture::has_operation::<E>(store, &mutant.hash).await == known_before,
        "{what}: rejected operation is in the store (has_operation changed)"
    );
    let after = fixture::snapshot::<E>(store, &universe).await;
    ensure!(before == after, "{what}: store changed by a rejected operation: {before:?} -> {after:?}");
    tally.rejected += 1;
    Ok(())
}

fn check_mutations_flavor<E: Flavor>(c: &Mutations) -> CaseResult {
    let rt = fixture::runtime();
    rt.block_on(async {
        let items: Vec<(ExtSpec, Option<Vec<u8>>)> = c
            .chain
            .iter()
            .enumerate()
            .map(|(i, o)| {
                let ext = if c.node_flavor {
                    ExtSpec::NodeBasic { log: c.log, ts: 1000 + i as u64, prune: o.prune && i > 0 }
                } else {
                    ExtSpec::Custom { log: c.log, prune: o.prune && i > 0, tags: o.tags.clone(), note: format!("op{i}") }
                };
                (ext, small_body(o.body_len, o.body_fill))
            })
            .collect();
        let chain: Vec<Built<E>> = build_chain::<E>(c.author, &items);
        let t = engine::idx(c.target, chain.len());
        let target = &chain[t];
        let home = (target.op.header.verifying_key, target.op.header.extensions.route().0);

        // Control store: prefix + untampered target.
        let control = fixture::store().await;
        let store = fixture::store().await;
        for b in &chain[..t] {
            for s in [&control, &store] {
                let o = fixture::ingest(s, &b.op).await;
                if o != Outcome::Inserted {
                    engine::harness_error(&format!("precondition: valid prefix operation seq {} not inserted: {o:?}", b.fields.seq));
                }
            }
        }
        let control_outcome = fixture::ingest(&control, &target.op).await;
        if control_outcome != Outcome::Inserted {
            engine::harness_error(&format!("precondition: untampered target not inserted on the control store: {control_outcome:?}"));
        }

        // Full universe for the before/after comparison of the whole case.
        let mut universe = Vec::new();
        for a in 0u8..6 {
            for l in 0u8..4 {
                let spec = if c.node_flavor {
                    ExtSpec::NodeBasic { log: l, ts: 0, prune: false }
                } else {
                    ExtSpec::Custom { log: l, prune: false, tags: vec![], note: String::new() }
                };
                universe.push((VerifyingKey::from_bytes(&public_key(a)).unwrap(), E::build(&spec).route().0));
            }
        }
        let start = fixture::snapshot::<E>(&store, &universe).await;

        let mut tally = Tally::default();
        for (i, m) in c.fields.iter().enumerate() {
            let Some(mutant) = m.apply(&target.fields, &target.sig, target.body.as_deref()) else {
                tally.noop += 1;
                continue;
            };
            let header: Header<E> = mutant.fields.header::<E>(mutant.sig.as_ref());
            let op = operation(header, mutant.body.as_deref());
            let before = tally.rejected;
            expect_rejected::<E>(&store, &format!("field mutation #{i} {m:?}"), &op, &home, &mut tally).await?;
            if tally.rejected > before {
                tally.classes.push(m.class());
            }
        }
        // The same tampering applied to an operation that is already stored (its id is known to
        // the store, so the "already exists" shortcut must not swallow the rejection).
        if t > 0 {
            let stored = &chain[t - 1];
            for (i, m) in c.fields.iter().take(c.fields.len() / 2).enumerate() {
                let Some(mutant) = m.apply(&stored.fields, &stored.sig, stored.body.as_deref()) else {
                    tally.noop += 1;
                    continue;
                };
                let header: Header<E> = mutant.fields.header::<E>(mutant.sig.as_ref());
                let op = operation(header, mutant.body.as_deref());
                let before = tally.rejected;
                expect_rejected::<E>(&store, &format!("field mutation #{i} {m:?} of the stored operation seq {}", stored.fields.seq), &op, &home, &mut tally).await?;
                if tally.rejected > before {
                    tally.stored_target += 1;
                }
            }
        }
        let wire = target.op.header.to_bytes();
        for (i, m) in c.bytes.iter().enumerate() {
            let Some(bytes) = m.apply(&wire) else {
                tally.noop += 1;
                continue;
            };
            let Ok(header) = decode_cbor::<Header<E>, _>(&bytes[..]) else {
                tally.undecodable += 1;
                continue;
            };
            if header == target.op.header {
                tally.same_header += 1;
                continue;
            }
            let op = operation(header, target.body.as_deref());
            let before = tally.rejected;
            expect_rejected::<E>(&store, &format!("byte mutation #{i} {m:?}"), &op, &home, &mut tally).await?;
            if tally.rejected > before {
                tally.classes.push("mut_bytes_decodable");
            }
        }

        let end = fixture::snapshot::<E>(&store, &universe).await;
        ensure!(start == end, "store changed over the rejected mutants: {start:?} -> {end:?}");
        // Metamorphic: the rejections left no trace, so the untampered operation is accepted
        // exactly as on the control store.
        let final_outcome = fixture::ingest(&store, &target.op).await;
        ensure!(
            final_outcome == control_outcome,
            "after {} rejected mutants the untampered operation gives {} (control store: {})",
            tally.rejected,
            final_outcome.class(),
            control_outcome.class()
        );

        let mut ok = CaseOk::nontrivial(tally.rejected > 0)
            .label_if(tally.undecodable > 0, "byte_mutant_undecodable")
            .label_if(tally.same_header > 0, "byte_mutant_same_header")
            .label_if(tally.void > 0, "mutant_still_valid_by_reference")
            .label_if(tally.noop > 0, "noop_mutation")
            .label_if(t > 0, "prefilled_prefix")
            .label_if(tally.stored_target > 0, "stored_operation_mutants_rejected")
            .label_if(c.node_flavor, "node_basic_flavor")
            .label_if(tally.rejected >= 10, "ten_or_more_rejected_mutants");
        tally.classes.sort();
        tally.classes.dedup();
        for cl in tally.classes {
            ok = ok.label(cl);
        }
        Ok(ok)
    })
}

fn check_mutations(c: &Mutations) -> CaseResult {
    if c.node_flavor {
        check_mutations_flavor::<NodeExt>(c)
    } else {
        check_mutations_flavor::<CustomExt>(c)
    }
}

fn mutations(n_fields: usize, n_bytes: usize) -> impl Strategy<Value = Mutations> {
    let op = (any::<bool>(), prop_oneof![1 => Just(0u8), 3 => 1u8..24], any::<u8>(), prop::collection::vec(0u32..9, 0..3))
        .prop_map(|(prune, body_len, body_fill, tags)| OpSpec { prune, body_len, body_fill, tags });
    (
        any::<bool>(),
        0u8..6,
        0u8..4,
        prop::collection::vec(op, 1..=6),
        any::<u16>(),
        prop::collection::vec(field_mutation(), n_fields / 2..=n_fields),
        prop::collection::vec(byte_mutation(), n_bytes / 2..=n_bytes),
    )
        .prop_map(|(node_flavor, author, log, chain, target, fields, bytes)| Mutations {
            node_flavor,
            author,
            log,
            chain,
            target,
            fields,
            bytes,
        })
}

pub fn run(mut ctx: Ctx) -> ! {
    crate::fuzz_seed::c01_fuzz(&mut ctx);
    let _watchdog = engine::Watchdog::arm("C01 (SQLite worker threads)", Duration::from_secs(ctx.pick(900, 7200)));
    ctx.assume("the reference predicate is applied to the canonical bytes (Header::to_bytes) of the header value that is validated");
    ctx.assume("part (a) limits Causal `previous` to <= 1 hash: headers with larger sets have no deterministic encoding on a tree with the C02 defect");
    ctx.assume("dropping the body of an operation is not tampering (validate_operation documents the body as optional)");
    ctx.run_prop(
        Part::new(
            "arbitrary_headers",
            "headers with every field drawn independently (version, author, payload size/hash present/absent/wrong, seq/backlink present/absent, signature right key/other key/stale/random/absent, body own/unrelated/empty/absent) x extension types (), custom struct, Node Basic/Causal; validate_operation <=> reference predicate <=> rules on the generated values; non-trivial = at least three of the five rules individually satisfied",
            3_000,
            90_000,
        )
        .min_nontrivial(0.5),
        arbitrary,
        check_arbitrary,
    );
    let (nf, nb) = (18usize, 12usize);
    ctx.run_prop(
        Part::new(
            "single_mutations",
            "valid chain of 1..6 operations (custom struct or Node Basic extensions), prefix pre-filled through ingest_operation, then 9..18 field-level and 6..12 byte-level single mutations of the next operation plus field-level mutations of the last stored operation; each must be rejected with the store unchanged; non-trivial = at least one mutant reached ingest_operation (decoded, not void) and was checked",
            400,
            12_000,
        )
        .min_nontrivial(0.8)
        .shrink_iters(300),
        move || mutations(nf, nb),
        check_mutations,
    );
    ctx.finish()
}
