//! C03 Ingest keeps every stored log a hash-linked, gap-free chain.
//!
//! Lock-step against the reference log model (`model::RefLogs`): the class of every
//! `ingest_operation` result (`Ok(true)` / `Ok(false)` / `Err(InvalidOperation)`) must equal the
//! model's verdict, and after every step the touched logs (periodically: all logs) satisfy the
//! invariants of the statement, checked directly on `get_log_entries` / `get_log_heights`:
//! unique strictly increasing seqs, every entry with seq > 0 and no prune flag backlinks to the
//! stored entry directly before it, height never decreases, content equals the model.

use std::collections::BTreeMap;
use std::time::Duration;

use engine::{CaseOk, CaseResult, Ctx, Part, ensure};
use p2panda_store::SqliteStore;

use crate::factory::{CustomExt, H32};
use crate::fixture::{self, Outcome};
use crate::model::{RefLogs, Verdict};
use crate::script::{Cell, Kind, OpSpec, Script, claimed_cell, delivered_info, strategies};

pub async fn check_cell(store: &SqliteStore, model: &RefLogs, cell: &Cell, max_height: &mut BTreeMap<(H32, u64), u32>, step: usize) -> Result<(), String> {
    let key = (*cell.0.as_bytes(), cell.1);
    let entries = fixture::log_entries::<CustomExt>(store, &cell.0, &cell.1).await;
    let who = format!("step {step}, log ({}.., {})", &cell.0.to_hex()[..8], cell.1);
    for w in entries.windows(2) {
        ensure!(w[0].0 < w[1].0, "{who}: stored seqs are not strictly increasing / unique: {:?}", entries.iter().map(|e| e.0).collect::<Vec<_>>());
    }
    for (i, (seq, _, prune, backlink)) in entries.iter().enumerate() {
        if *seq > 0 && !*prune {
            let prev = if i > 0 { Some(&entries[i - 1]) } else { None };
            ensure!(
                prev.map(|p| p.0 + 1 == *seq && Some(p.1) == *backlink).unwrap_or(false),
                "{who}: stored entry seq {seq} without prune flag does not backlink to the stored entry directly before it (stored seqs {:?})",
                entries.iter().map(|e| e.0).collect::<Vec<_>>()
            );
        }
    }
    let height = fixture::log_height::<CustomExt>(store, &cell.0, &cell.1).await;
    ensure!(
        height == entries.last().map(|e| e.0),
        "{who}: get_log_heights = {height:?} but the last stored entry is {:?}",
        entries.last().map(|e| e.0)
    );
    if let Some(prev) = max_height.get(&key) {
        ensure!(height.map(|h| h >= *prev).unwrap_or(false), "{who}: height decreased from {prev} to {height:?}");
    }
    if let Some(h) = height {
        max_height.insert(key, h);
    }
    let got: Vec<(u32, H32)> = entries.iter().map(|e| (e.0, e.1)).collect();
    let want = model.entries(&key);
    ensure!(
        got == want,
        "{who}: stored log differs from the reference model: stored seqs {:?}, model seqs {:?}",
        got.iter().map(|e| e.0).collect::<Vec<_>>(),
        want.iter().map(|e| e.0).collect::<Vec<_>>()
    );
    Ok(())
}

async fn run_script(s: &Script) -> CaseResult {
    let world = s.materialize();
    let store = fixture::store().await;
    let mut model = RefLogs::default();
    let mut max_height = BTreeMap::new();
    let (mut rejected, mut inserted, mut exists, mut out_of_order) = (0, 0, 0, 0);
    let (mut rejected_link, mut rejected_invalid, mut prune_jump, mut extra_accepted, mut pruned_entries) = (0, 0, 0, 0, 0u64);
    let mut late_prune_rejected = 0;
    let mut extra_gap_rejected = 0;

    for (step, d) in world.deliveries.iter().enumerate() {
        let info = delivered_info(&d.op);
        let height_before = model.height(&(info.author, info.log));
        let verdict = model.ingest(&info);
        let outcome = fixture::ingest(&store, &d.op).await;
        let agree = matches!(
            (&verdict, &outcome),
            (Verdict::Inserted, Outcome::Inserted) | (Verdict::Exists, Outcome::Exists) | (Verdict::Rejected(_), Outcome::Invalid(_))
        );
        ensure!(
            agree,
            "step {step} ({:?} delivery, seq {}, prune flag {}, log height before {:?}): ingest_operation returned {} {} but the reference model says {:?}",
            d.kind,
            info.seq,
            info.prune,
            height_before,
            outcome.class(),
            match &outcome {
                Outcome::Invalid(e) => format!("[{e}]"),
                _ => String::new(),
            },
            verdict
        );
        match verdict {
            Verdict::Inserted => {
                inserted += 1;
                if info.prune && info.seq > 0 && height_before.map(|h| info.seq > h + 1).unwrap_or(true) {
                    prune_jump += 1;
                }
                if d.kind == Kind::Extra {
                    extra_accepted += 1;
                }
            }
            Verdict::Exists => exists += 1,
            Verdict::Rejected(why) => {
                rejected += 1;
                if info.valid {
                    rejected_link += 1;
                    if why.starts_with("prune-flagged") {
                        late_prune_rejected += 1;
                    }
                    if why == "non-incremental seq" && d.kind == Kind::Extra {
                        extra_gap_rejected += 1;
                    }
                } else {
                    rejected_invalid += 1;
                }
            }
        }
        if d.out_of_order {
            out_of_order += 1;
        }
        // The prune step of the pipeline: only for operations ingest did not fail on.
        if s.pipeline && info.prune && !matches!(outcome, Outcome::Invalid(_)) {
            let cell = claimed_cell(&d.op);
            let n = fixture::prune::<CustomExt>(&store, &cell.0, &cell.1, info.seq).await;
            let m = model.prune(&(info.author, info.log), info.seq);
            ensure!(n == m, "step {step}: prune_entries(until {}) removed {n} entries, the model {m}", info.seq);
            pruned_entries += n;
        }
        check_cell(&store, &model, &claimed_cell(&d.op), &mut max_height, step).await?;
        if step % 8 == 7 || step + 1 == world.deliveries.len() {
            for cell in &world.universe {
                check_cell(&store, &model, cell, &mut max_height, step).await?;
            }
        }
    }
    fixture::begin_works(&store).await?;

    Ok(CaseOk::nontrivial(out_of_order > 0 && rejected > 0)
        .label_if(s.pipeline, "pipeline_mode")
        .label_if(!s.pipeline, "ingest_only_mode")
        .label_if(inserted >= 10, "ten_or_more_inserted")
        .label_if(exists > 0, "duplicate_ignored")
        .label_if(rejected_link > 0, "valid_op_rejected_by_link_rules")
        .label_if(rejected_invalid > 0, "forged_op_rejected")
        .label_if(prune_jump > 0, "prune_point_accepted_over_gap")
        .label_if(extra_accepted > 0, "extra_op_accepted")
        .label_if(extra_gap_rejected > 0, "extra_op_behind_gap_rejected")
        .label_if(late_prune_rejected > 0, "late_prune_flagged_op_rejected")
        .label_if(pruned_entries > 0, "entries_pruned")
        .label_if(world.deliveries.len() >= 20, "twenty_or_more_deliveries"))
}

fn check_script(s: &Script) -> CaseResult {
    fixture::runtime().block_on(run_script(s))
}

/// All delivery orders of one chain of length `n` with every prune-flag pattern, both modes.
fn all_permutations(max_len: usize) -> Vec<Script> {
    fn permutations(n: usize) -> Vec<Vec<u16>> {
        if n == 0 {
            return vec![vec![]];
        }
        let mut out = Vec::new();
        for p in permutations(n - 1) {
            for pos in 0..=p.len() {
                let mut q = p.clone();
                q.insert(pos, (n - 1) as u16);
                out.push(q);
            }
        }
        out
    }
    let mut out = Vec::new();
    for n in 1..=max_len {
        for flags in 0u32..(1 << n) {
            for perm in permutations(n) {
                // perm[k] = operation delivered k-th  =>  key of operation j = its position.
                let mut order = vec![0u16; n];
                for (k, j) in perm.iter().enumerate() {
                    order[*j as usize] = k as u16;
                }
                for pipeline in [false, true] {
                    out.push(Script {
                        authors: 1,
                        logs: 1,
                        chains: vec![(0..n).map(|i| OpSpec { prune: flags & (1 << i) != 0, body: (i % 3) as u8 }).collect()],
                        order: order.clone(),
                        drops: vec![],
                        dups: vec![],
                        extras: vec![],
                        forged: vec![],
                        pipeline,
                    });
                }
            }
        }
    }
    out
}

pub fn run(mut ctx: Ctx) -> ! {
    let _watchdog = engine::Watchdog::arm("C03 (SQLite worker threads)", Duration::from_secs(ctx.pick(900, 7200)));
    ctx.assume("authors do not equivocate: at most one operation per (author, log, seq) is ever signed in a script");
    ctx.assume("log id and prune flag passed to ingest_operation are the ones in the operation's signed header extensions (what the stream processors do)");
    ctx.assume("sequence numbers stay below u32::MAX (validate_backlink computes past.seq_num + 1)");
    ctx.assume("a prune-flagged operation is accepted without looking at its backlink (documented in validate_prunable_backlink) but must extend the log (seq > height)");
    let max_len = ctx.pick(10usize, 10usize);
    ctx.run_prop(
        Part::new(
            "delivery_scripts",
            "1..3 authors x 1..2 logs, true chains of 0..10 operations with prune flags (p=0.2) and bodies; delivery = permutation by sort keys (in order / jitter / random / newest prune segment first / reversed) with drops, duplicates, validly signed extra operations that do not link (wrong backlink, gap, with and without prune flag) and forged copies (single-field mutations, wrong-author claims); ingest only or ingest+prune; lock-step with the reference model; non-trivial = at least one out-of-order delivery and at least one rejected operation",
            600,
            20_000,
        )
        .min_nontrivial(0.2)
        .shrink_iters(400),
        move || strategies::c03_script(max_len),
        check_script,
    );
    let n = ctx.pick(3usize, 5usize);
    ctx.run_exhaustive(
        "all_permutations",
        "every delivery order of one chain of length 1..3 (thorough: 1..5) x every prune-flag pattern x {ingest only, ingest+prune}; non-trivial = at least one out-of-order delivery and one rejection",
        all_permutations(n),
        check_script,
    );
    ctx.finish()
}
