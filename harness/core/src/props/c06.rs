//! C06 State-vector diff returns exactly what the remote is missing.
//!
//! Oracle: closed form written from the property statement (not from the code): a range exists
//! for (a, l) iff local has (a, l) and remote lacks it or is strictly behind; its value is
//! (remote height | None, Some(local height)); merging the diff into the remote gives the
//! pointwise maximum. All comparisons are on the *flattened* (author, log) -> value view, so an
//! empty inner map is the same as an absent author (the statement speaks about pairs).

use std::collections::BTreeMap;

use engine::proptest::prelude::*;
use engine::{CaseOk, CaseResult, Ctx, Part, ensure, ensure_eq};
use p2panda_core::Cursor;
use p2panda_core::logs::{LogHeights, LogRanges, compare};
use serde::{Deserialize, Serialize};

#[derive(Clone, Debug, PartialEq, Eq, PartialOrd, Ord, Hash, Serialize, Deserialize)]
pub struct A(pub u8);
impl p2panda_core::identity::Author for A {}

type Heights = LogHeights<A, u8>;
type Flat<V> = BTreeMap<(u8, u8), V>;

/// Serializable form of a height map: author -> (log -> height). `None` inner = author absent.
#[derive(Clone, Debug, Serialize, Deserialize)]
struct MapSpec(Vec<(u8, Vec<(u8, u32)>)>);

impl MapSpec {
    fn build(&self) -> Heights {
        let mut m: Heights = BTreeMap::new();
        for (a, logs) in &self.0 {
            let e = m.entry(A(*a)).or_default();
            for (l, h) in logs {
                e.insert(*l, *h);
            }
        }
        m
    }
}

#[derive(Clone, Debug, Serialize, Deserialize)]
struct Pair {
    local: MapSpec,
    remote: MapSpec,
}

fn flat_heights(m: &Heights) -> Flat<u32> {
    m.iter()
        .flat_map(|(a, logs)| logs.iter().map(move |(l, h)| ((a.0, *l), *h)))
        .collect()
}

fn flat_ranges(m: &LogRanges<A, u8>) -> Flat<(Option<u32>, Option<u32>)> {
    m.iter()
        .flat_map(|(a, logs)| logs.iter().map(move |(l, r)| ((a.0, *l), *r)))
        .collect()
}

fn reference(local: &Flat<u32>, remote: &Flat<u32>) -> Flat<(Option<u32>, Option<u32>)> {
    let mut out = BTreeMap::new();
    for (k, lh) in local {
        match remote.get(k) {
            None => {
                out.insert(*k, (None, Some(*lh)));
            }
            Some(rh) if rh < lh => {
                out.insert(*k, (Some(*rh), Some(*lh)));
            }
            _ => {}
        }
    }
    out
}

fn check_pair(pair: &Pair) -> CaseResult {
    let local = pair.local.build();
    let remote = pair.remote.build();
    let fl = flat_heights(&local);
    let fr = flat_heights(&remote);
    let expected = reference(&fl, &fr);

    let diff = compare(&local, &remote);
    let got = flat_ranges(&diff);
    ensure_eq!(got, expected, "logs::compare differs from the closed form");

    // Same law through Cursor::compare (cursor = remote state vector, argument = local heights).
    let cursor = Cursor::new("c06", remote.clone());
    let got_cursor = flat_ranges(&cursor.compare(&local));
    ensure_eq!(got_cursor, expected, "Cursor::compare differs from the closed form");

    // Merge law: remote advanced to every `until` of the diff == pointwise maximum.
    let mut merged = fr.clone();
    for (k, (_, until)) in &got {
        let until = until.ok_or_else(|| format!("diff range for {k:?} has no upper bound"))?;
        merged.insert(*k, until);
    }
    let mut max = fr.clone();
    for (k, h) in &fl {
        let e = max.entry(*k).or_insert(*h);
        *e = (*e).max(*h);
    }
    ensure_eq!(merged, max, "merging the diff into the remote is not the pointwise maximum");

    // Same through Cursor::advance.
    let mut c = Cursor::new("c06", remote.clone());
    for ((a, l), (_, until)) in &got {
        c.advance(A(*a), *l, until.unwrap());
    }
    ensure_eq!(flat_heights(c.state()), max, "advancing a cursor by the diff is not the pointwise maximum");

    // Symmetric sanity: nothing is both needed by remote and by local for the same log.
    let back = flat_ranges(&compare(&remote, &local));
    for k in got.keys() {
        ensure!(!back.contains_key(k), "log {k:?} is reported missing in both directions");
    }

    // Classification.
    let mut missing = false;
    let mut behind = false;
    let mut equal = false;
    let mut ahead = false;
    for (k, lh) in &fl {
        match fr.get(k) {
            None => missing = true,
            Some(rh) if rh < lh => behind = true,
            Some(rh) if rh == lh => equal = true,
            Some(_) => ahead = true,
        }
    }
    let classes = [missing, behind, equal, ahead].iter().filter(|b| **b).count();
    Ok(CaseOk::nontrivial(classes >= 2)
        .label_if(missing, "has_missing")
        .label_if(behind, "has_behind")
        .label_if(equal, "has_equal")
        .label_if(ahead, "has_ahead")
        .label_if(classes == 4, "all_four_classes")
        .label_if(fl.values().chain(fr.values()).any(|h| *h == u32::MAX), "height_u32_max")
        .label_if(fl.values().chain(fr.values()).any(|h| *h == 0), "height_zero"))
}

/// All 17 shapes of one author over two logs with heights 0..=2 (absent author included).
fn author_shapes() -> Vec<Option<Vec<(u8, u32)>>> {
    let log_opts: [Option<u32>; 4] = [None, Some(0), Some(1), Some(2)];
    let mut out = vec![None];
    for l0 in log_opts {
        for l1 in log_opts {
            let mut logs = vec![];
            if let Some(h) = l0 {
                logs.push((0u8, h));
            }
            if let Some(h) = l1 {
                logs.push((1u8, h));
            }
            out.push(Some(logs));
        }
    }
    out
}

fn all_maps() -> Vec<MapSpec> {
    let shapes = author_shapes();
    let mut out = vec![];
    for a0 in &shapes {
        for a1 in &shapes {
            let mut v = vec![];
            if let Some(l) = a0 {
                v.push((0u8, l.clone()));
            }
            if let Some(l) = a1 {
                v.push((1u8, l.clone()));
            }
            out.push(MapSpec(v));
        }
    }
    out
}

fn height() -> impl Strategy<Value = u32> {
    prop_oneof![
        3 => 0u32..6,
        2 => any::<u32>(),
        1 => Just(u32::MAX),
        1 => Just(u32::MAX - 1),
        1 => Just(0u32),
    ]
}

fn map_spec(max_authors: usize, max_logs: usize) -> impl Strategy<Value = MapSpec> {
    prop::collection::vec(
        (0u8..max_authors as u8, prop::collection::vec((0u8..max_logs as u8, height()), 0..=max_logs)),
        0..=max_authors,
    )
    .prop_map(MapSpec)
}

/// Remote derived from local by per-log edits, so that equal/behind/ahead classes are common.
fn pair() -> impl Strategy<Value = Pair> {
    let derived = (map_spec(6, 6), prop::collection::vec(0u8..6, 0..48), map_spec(6, 6)).prop_map(|(local, edits, extra)| {
        let mut remote = Vec::new();
        let mut i = 0;
        for (a, logs) in &local.0 {
            let mut rl = Vec::new();
            for (l, h) in logs {
                let e = edits.get(i).copied().unwrap_or(0);
                i += 1;
                match e {
                    0 => rl.push((*l, *h)),
                    1 => rl.push((*l, h.saturating_sub(1))),
                    2 => rl.push((*l, h.saturating_add(1))),
                    3 => {}
                    4 => rl.push((*l, h / 2)),
                    _ => rl.push((*l, h.saturating_add(1000))),
                }
            }
            if !(rl.is_empty() && edits.get(i).copied().unwrap_or(0) == 5) {
                remote.push((*a, rl));
            }
        }
        remote.extend(extra.0.into_iter().take(2));
        Pair {
            local,
            remote: MapSpec(remote),
        }
    });
    let independent = (map_spec(6, 6), map_spec(6, 6)).prop_map(|(local, remote)| Pair { local, remote });
    prop_oneof![3 => derived, 1 => independent]
}

pub fn run(mut ctx: Ctx) -> ! {
    ctx.assume("diff and heights are compared as flattened (author, log) maps: an empty inner map equals an absent author");
    let maps = all_maps();
    let domain = maps.iter().flat_map(|l| {
        maps.iter().map(move |r| Pair {
            local: l.clone(),
            remote: r.clone(),
        })
    });
    ctx.run_exhaustive(
        "exhaustive_2x2x3",
        "all 289x289 pairs of height maps over 2 authors x 2 logs x heights {absent,0,1,2} (author absent or present, empty inner map included); non-trivial = at least two of the classes missing/behind/equal/ahead occur",
        domain,
        check_pair,
    );
    ctx.run_prop(
        Part::new(
            "random_large",
            "random pairs over <=6 authors x <=6 logs, heights over the full u32 range incl. 0 and u32::MAX, remote mostly derived from local by per-log edits; non-trivial = at least two of the classes missing/behind/equal/ahead occur",
            5_000,
            1_000_000,
        )
        .min_nontrivial(0.3),
        pair,
        check_pair,
    );
    ctx.finish()
}
