//! C18 Hybrid timestamps strictly increase on every increment.
//!
//! Seam: p2panda-core is built with `test_utils`, so `Timestamp::now()` reads mock_instant's
//! *thread-local* `MockClock`; every case sets the clock of its own worker thread from generated
//! data before each call, nothing reads the real wall clock.
//!
//! Oracle: the algebraic law of the statement – `t.increment() > t` for every timestamp and
//! clock reading (compared both through the type's `Ord`, which is what consumers use, and
//! through the parts), chains strictly increasing, and `NodeInfo::update_transports` accepting
//! every successive self-published record as newer.

use std::net::{Ipv4Addr, SocketAddr};
use std::time::Duration;

use engine::proptest::prelude::*;
use engine::{CaseOk, CaseResult, Ctx, Part, ensure};
use mock_instant::thread_local::MockClock;
use p2panda_core::Timestamp;
use p2panda_core::timestamp::{HybridTimestamp, LamportTimestamp};
use p2panda_net::addrs::{AuthenticatedTransportInfo, NodeInfo, TransportAddress, TransportInfo, UnsignedTransportInfo};
use serde::{Deserialize, Serialize};

/// Wall-clock reading relative to the wall-clock part of the timestamp that is incremented.
#[derive(Clone, Debug, Serialize, Deserialize)]
enum Clock {
    Equal,
    Before(u64),
    After(u64),
    Abs(u64),
}

impl Clock {
    fn reading(&self, wall: u64) -> u64 {
        match self {
            Clock::Equal => wall,
            Clock::Before(d) => wall.saturating_sub(*d),
            Clock::After(d) => wall.saturating_add(*d),
            Clock::Abs(v) => *v,
        }
    }
}

fn set_clock(micros: u64) {
    MockClock::set_system_time(Duration::from_micros(micros));
}

fn parts(t: &HybridTimestamp) -> (u64, u64) {
    let (w, l) = t.to_parts();
    // LamportTimestamp has no accessor; its Display is the plain number.
    (u64::from(w), l.to_string().parse::<u64>().expect("lamport display is a number"))
}

fn make(ts: u64, logical: u64) -> HybridTimestamp {
    HybridTimestamp::from_parts(Timestamp::new(ts), LamportTimestamp::new(logical))
}

fn delta() -> impl Strategy<Value = u64> {
    prop_oneof![
        3 => Just(1u64),
        3 => 1u64..1000,
        3 => 1_000_000u64..100_000_000_000_000,
        1 => 1u64..u64::MAX,
    ]
}

fn clock() -> impl Strategy<Value = Clock> {
    prop_oneof![
        2 => Just(Clock::Equal),
        4 => delta().prop_map(Clock::Before),
        3 => delta().prop_map(Clock::After),
        1 => any::<u64>().prop_map(Clock::Abs),
    ]
}

/// Wall-clock part: anything with a successor (u64::MAX excluded: no greater value exists).
fn wall() -> impl Strategy<Value = u64> {
    prop_oneof![
        1 => Just(0u64),
        2 => 0u64..1000,
        4 => 1_600_000_000_000_000u64..1_900_000_000_000_000,
        2 => 0u64..u64::MAX,
        1 => Just(u64::MAX - 1),
    ]
}

/// Logical part: `u64::MAX` excluded (no successor; unreachable by counting).
fn logical() -> impl Strategy<Value = u64> {
    prop_oneof![
        3 => Just(0u64),
        3 => 0u64..100,
        2 => 0u64..u64::MAX,
        1 => Just(u64::MAX - 1),
    ]
}

#[derive(Clone, Debug, Serialize, Deserialize)]
struct Single {
    ts: u64,
    logical: u64,
    clock: Clock,
}

fn greater(next: &HybridTimestamp, prev: &HybridTimestamp) -> Result<(), String> {
    ensure!(
        next > prev,
        "increment is not strictly greater by Ord: {prev} -> {next}"
    );
    ensure!(
        parts(next) > parts(prev),
        "increment is not strictly greater by parts: {:?} -> {:?}",
        parts(prev),
        parts(next)
    );
    Ok(())
}

fn check_single(c: &Single) -> CaseResult {
    let now = c.clock.reading(c.ts);
    set_clock(now);
    let t = make(c.ts, c.logical);
    let n = t.increment();
    greater(&n, &t).map_err(|e| format!("clock reads {now}: {e}"))?;
    Ok(CaseOk::nontrivial(now <= c.ts)
        .label_if(now < c.ts, "clock_earlier")
        .label_if(now == c.ts, "clock_equal")
        .label_if(now > c.ts, "clock_later")
        .label_if(now < c.ts && c.logical > 0, "clock_earlier_logical_nonzero"))
}

/// The one input the other parts exclude: the logical counter is saturated. There the
/// implementation may refuse (it panics on the overflow in a build with overflow checks, which is
/// how the harness is built) or return a strictly greater value (clock ahead: next wall-clock
/// tick) – but never hand back a value that is not greater.
fn check_saturated(c: &Single) -> CaseResult {
    let now = c.clock.reading(c.ts);
    set_clock(now);
    let t = make(c.ts, u64::MAX);
    let outcome = std::panic::catch_unwind(|| t.increment());
    let refused = outcome.is_err();
    if let Ok(n) = outcome {
        greater(&n, &t).map_err(|e| format!("saturated logical counter, clock reads {now}: increment returned instead of refusing, and {e}"))?;
    }
    Ok(CaseOk::nontrivial(now <= c.ts)
        .label_if(refused, "refused_by_overflow_panic")
        .label_if(!refused, "returned_greater")
        .label_if(now <= c.ts, "clock_not_ahead"))
}

#[derive(Clone, Debug, Serialize, Deserialize)]
struct Chain {
    ts: u64,
    logical: u64,
    walk: Vec<Clock>,
}

fn check_chain(c: &Chain) -> CaseResult {
    let mut seen = vec![make(c.ts, c.logical)];
    let mut backwards = 0;
    for (i, step) in c.walk.iter().enumerate() {
        let cur = *seen.last().unwrap();
        let (wall, logical) = parts(&cur);
        if wall == u64::MAX || logical == u64::MAX {
            // No successor exists any more (only reachable through generated extreme values).
            break;
        }
        let now = step.reading(wall);
        if now <= wall {
            backwards += 1;
        }
        set_clock(now);
        let next = cur.increment();
        greater(&next, &cur).map_err(|e| format!("step {i}, clock reads {now}: {e}"))?;
        for (j, old) in seen.iter().enumerate() {
            ensure!(next > *old, "step {i}: {next} is not greater than earlier chain element #{j} {old}");
        }
        seen.push(next);
    }
    Ok(CaseOk::nontrivial(backwards > 0)
        .label_if(backwards >= 3, "three_or_more_non_advancing_readings")
        .label_if(seen.len() > 20, "chain_over_20"))
}

#[derive(Clone, Debug, Serialize, Deserialize)]
struct Publish {
    clock: Clock,
    with_addr: bool,
}

#[derive(Clone, Debug, Serialize, Deserialize)]
struct Transport {
    node: u8,
    ts: u64,
    logical: u64,
    publishes: Vec<Publish>,
}

fn check_transport(c: &Transport) -> CaseResult {
    let mut seed = [0x11u8; 32];
    seed[0] = c.node;
    let key = p2panda_core::SigningKey::from_bytes(&seed);
    let node_id = key.verifying_key();

    // The node's previous self-published record carries the generated timestamp.
    let first: AuthenticatedTransportInfo = UnsignedTransportInfo {
        timestamp: make(c.ts, c.logical),
        addresses: vec![],
    }
    .sign(&key)
    .map_err(|e| format!("signing failed: {e}"))?;
    let mut info = NodeInfo::new(node_id);
    let fresh = info
        .update_transports(TransportInfo::Authenticated(first.clone()))
        .map_err(|e| format!("first record rejected: {e}"))?;
    ensure!(fresh, "first transport record of an empty NodeInfo was not accepted as newer");

    let mut previous = first;
    let mut backwards = 0;
    for (i, p) in c.publishes.iter().enumerate() {
        let (wall, logical) = parts(&previous.timestamp);
        if wall == u64::MAX || logical == u64::MAX {
            break;
        }
        let now = p.clock.reading(wall);
        if now <= wall {
            backwards += 1;
        }
        set_clock(now);
        // What `iroh_endpoint::discovery` does when the endpoint's addresses change.
        let unsigned = if p.with_addr {
            let addr = SocketAddr::new(Ipv4Addr::new(10, 0, (i >> 8) as u8, i as u8).into(), 4000 + i as u16);
            UnsignedTransportInfo::from_addrs([TransportAddress::from_iroh(
                node_id,
                Option::<p2panda_net::iroh_endpoint::RelayUrl>::None,
                [addr],
            )])
        } else {
            UnsignedTransportInfo::new()
        };
        let next = unsigned
            .increment_timestamp(Some(&previous))
            .sign(&key)
            .map_err(|e| format!("signing failed: {e}"))?;
        greater(&next.timestamp, &previous.timestamp).map_err(|e| format!("publish {i}, clock reads {now}: {e}"))?;
        let newer = info
            .update_transports(TransportInfo::Authenticated(next.clone()))
            .map_err(|e| format!("publish {i}: own record rejected: {e}"))?;
        ensure!(
            newer,
            "publish {i}: the node's own successive transport record ({}) was not accepted as newer than its previous one ({}), clock reads {now}",
            next.timestamp,
            previous.timestamp
        );
        ensure!(
            info.transports == Some(TransportInfo::Authenticated(next.clone())),
            "publish {i}: NodeInfo does not hold the newest record"
        );
        previous = next;
    }
    Ok(CaseOk::nontrivial(backwards > 0).label_if(backwards >= 2, "two_or_more_non_advancing_readings"))
}

pub fn run(mut ctx: Ctx) -> ! {
    ctx.assume("increment()/chain/transport parts exclude timestamps whose wall-clock or logical part is u64::MAX (unreachable by counting); part saturated_logical covers logical = u64::MAX with the weaker oracle refuse-or-greater (the harness is built with overflow checks, where the unchanged code panics there)");
    ctx.assume("the wall clock is mock_instant's thread-local MockClock (p2panda-core feature test_utils), set from the generated case before every call");
    ctx.run_prop(
        Part::new(
            "single_increment",
            "(wall, logical) x clock reading (equal / earlier by 1us..years / later / absolute); t.increment() > t; non-trivial = clock reading <= wall-clock part of the timestamp",
            20_000,
            2_000_000,
        )
        .min_nontrivial(0.3),
        || (wall(), logical(), clock()).prop_map(|(ts, logical, clock)| Single { ts, logical, clock }),
        check_single,
    );
    ctx.run_prop(
        Part::new(
            "saturated_logical",
            "(wall, logical = u64::MAX) x clock reading: increment() either refuses (overflow panic in a checked build) or returns a strictly greater timestamp, never an equal or smaller one; non-trivial = clock reading <= wall-clock part (the branch that bumps the logical counter)",
            2_000,
            100_000,
        )
        .min_nontrivial(0.3),
        || (wall(), clock()).prop_map(|(ts, clock)| Single { ts, logical: u64::MAX, clock }),
        check_saturated,
    );
    let max_walk = ctx.pick(50usize, 200usize);
    ctx.run_prop(
        Part::new(
            "increment_chain",
            "start timestamp + generated clock walk (each reading relative to the current timestamp); chain of increments strictly increasing (each element greater than every earlier one); non-trivial = at least one reading <= current wall-clock part",
            4_000,
            200_000,
        )
        .min_nontrivial(0.3),
        move || {
            (wall(), logical(), prop::collection::vec(clock(), 1..=max_walk)).prop_map(|(ts, logical, walk)| Chain { ts, logical, walk })
        },
        check_chain,
    );
    ctx.run_prop(
        Part::new(
            "transport_info",
            "previous self-published AuthenticatedTransportInfo with generated timestamp, then 1..8 publishes (UnsignedTransportInfo::new/from_addrs -> increment_timestamp(previous) -> sign) under a generated clock walk; NodeInfo::update_transports must return Ok(true) each time; non-trivial = at least one reading <= previous wall-clock part",
            2_000,
            60_000,
        )
        .min_nontrivial(0.3),
        || {
            (
                0u8..8,
                wall(),
                logical(),
                prop::collection::vec((clock(), any::<bool>()).prop_map(|(clock, with_addr)| Publish { clock, with_addr }), 1..=8),
            )
                .prop_map(|(node, ts, logical, publishes)| Transport { node, ts, logical, publishes })
        },
        check_transport,
    );
    ctx.finish()
}
