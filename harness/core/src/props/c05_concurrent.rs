//! C05 (also C03's "single transaction around check+insert"): part `concurrent_pipelines`.
//!
//! Two or three pipelines sharing one store (as two sync sessions / pipelines of one node do)
//! each ingest one operation of the same log and, like the Node pipeline, run the prune step
//! after an accepted prune-flagged operation. They are started while the harness holds the
//! store's transaction permit and released together, so their `ingest_operation` calls overlap.
//!
//! Oracle (holds for every serialisation of the atomic steps `ingest(x)` and `prune(x)` with
//! `ingest(x)` before `prune(x)`): once all pipelines are done, no stored entry of the log has a
//! sequence number below the highest prune point that was accepted – an older operation is
//! either stored before the prune step runs (and deleted by it) or arrives after the prune point
//! was ingested (and is rejected). Sequence numbers are unique and every stored, non-flagged
//! entry with a stored predecessor links to it.

use std::path::Path;

use engine::proptest::prelude::*;
use engine::{CaseOk, CaseResult, Ctx, Part, ensure, idx};
use p2panda_store::{SqliteStoreBuilder, Transaction};
use serde::{Deserialize, Serialize};

use crate::factory::{Built, CustomExt, ExtSpec, build_chain};
use crate::fixture::{self, Outcome};

#[derive(Clone, Debug, Serialize, Deserialize)]
struct Case {
    /// Prune flag per operation of the chain (seq = index).
    flags: Vec<bool>,
    /// Number of leading operations ingested sequentially before the race.
    prefix: u8,
    /// Operations ingested concurrently (mapped into prefix..len), in start order.
    racers: Vec<u16>,
    /// Scheduler yields before the permit is released.
    yields: u8,
    file_backed: bool,
}

static COUNTER: std::sync::atomic::AtomicU64 = std::sync::atomic::AtomicU64::new(0);

async fn run_case(case: &Case, tmp: &Path) -> CaseResult {
    let n = case.flags.len();
    let items: Vec<(ExtSpec, Option<Vec<u8>>)> = case
        .flags
        .iter()
        .enumerate()
        .map(|(i, f)| {
            (
                ExtSpec::Custom {
                    log: 1,
                    prune: *f && i > 0,
                    tags: vec![],
                    note: String::new(),
                },
                Some(vec![i as u8 + 1]),
            )
        })
        .collect();
    let chain: Vec<Built<CustomExt>> = build_chain::<CustomExt>(1, &items);
    let author = chain[0].op.header.verifying_key;
    let log = 1u64;

    let dir = tmp.join(format!("c05c-{}", COUNTER.fetch_add(1, std::sync::atomic::Ordering::SeqCst)));
    let store = if case.file_backed {
        std::fs::create_dir_all(&dir).map_err(|e| e.to_string())?;
        SqliteStoreBuilder::new()
            .database_url(&format!("sqlite://{}", dir.join("db.sqlite").display()))
            .max_connections(4)
            .build()
            .await
            .unwrap_or_else(|e| fixture::store_failure("open file-backed store", e))
    } else {
        fixture::store().await
    };

    let prefix = (case.prefix as usize).min(n.saturating_sub(2));
    for b in &chain[..prefix] {
        let o = fixture::ingest(&store, &b.op).await;
        ensure!(o == Outcome::Inserted, "prefix operation seq {} was not accepted: {o:?}", b.op.header.seq_num);
        if b.op.header.extensions.prune {
            fixture::prune::<CustomExt>(&store, &author, &log, b.op.header.seq_num).await;
        }
    }
    // Distinct racers out of the remaining operations.
    let mut rest: Vec<usize> = (prefix..n).collect();
    let mut racers = Vec::new();
    for r in &case.racers {
        if rest.is_empty() {
            break;
        }
        racers.push(rest.remove(idx(*r, rest.len())));
    }
    ensure!(racers.len() >= 2, "harness: fewer than two racers");

    let permit = store.begin().await.unwrap_or_else(|e| fixture::store_failure("begin", e));
    let pipelines = racers.iter().map(|i| {
        let op = chain[*i].op.clone();
        let store = store.clone();
        async move {
            let outcome = fixture::ingest(&store, &op).await;
            if op.header.extensions.prune && !matches!(outcome, Outcome::Invalid(_)) {
                fixture::prune::<CustomExt>(&store, &author, &log, op.header.seq_num).await;
            }
            (op.header.seq_num, op.header.extensions.prune, outcome)
        }
    });
    let yields = case.yields as usize % 12;
    let release = async {
        for _ in 0..yields {
            tokio::task::yield_now().await;
        }
        store.rollback(permit).await.unwrap_or_else(|e| fixture::store_failure("rollback", e));
    };
    let (results, ()) = tokio::join!(futures_util::future::join_all(pipelines), release);

    let entries = fixture::log_entries::<CustomExt>(&store, &author, &log).await;
    let seqs: Vec<u32> = entries.iter().map(|e| e.0).collect();
    let mut uniq = seqs.clone();
    uniq.dedup();
    ensure!(uniq == seqs, "stored sequence numbers are not unique/ascending: {seqs:?}");
    let accepted_point = results
        .iter()
        .filter(|(_, flag, o)| *flag && *o == Outcome::Inserted)
        .map(|(s, _, _)| *s)
        .max();
    if let Some(p) = accepted_point {
        ensure!(
            seqs.iter().all(|s| *s >= p),
            "after concurrent pipelines {:?} (started in this order) the log holds entries below the accepted prune point {p}: stored seqs {seqs:?}",
            results.iter().map(|(s, f, o)| format!("seq {s} flag {f} -> {}", o.class())).collect::<Vec<_>>()
        );
    }
    for w in entries.windows(2) {
        let (prev, cur) = (&w[0], &w[1]);
        if !cur.2 && cur.0 == prev.0 + 1 {
            ensure!(cur.3 == Some(prev.1), "stored entry seq {} does not link to the stored entry before it", cur.0);
        } else if !cur.2 {
            return Err(format!("stored non-flagged entry seq {} has no stored predecessor (stored seqs {seqs:?})", cur.0));
        }
    }
    if case.file_backed {
        store.pool().close().await;
        std::fs::remove_dir_all(&dir).ok();
    }
    let older_after_point = {
        // Start order has a newer prune point in front of an older operation.
        let mut seen_point: Option<u32> = None;
        let mut hit = false;
        for i in &racers {
            let s = chain[*i].op.header.seq_num;
            if let Some(p) = seen_point {
                if s < p {
                    hit = true;
                }
            }
            if chain[*i].op.header.extensions.prune {
                seen_point = Some(seen_point.map(|p| p.max(s)).unwrap_or(s));
            }
        }
        hit
    };
    Ok(CaseOk::nontrivial(older_after_point)
        .label_if(case.file_backed, "file_backed_store")
        .label_if(accepted_point.is_some(), "prune_point_accepted_in_race")
        .label_if(results.iter().any(|r| matches!(r.2, Outcome::Invalid(_))), "a_racer_was_rejected"))
}

pub fn part(ctx: &mut Ctx) {
    let tmp = ctx.tmp_dir();
    ctx.run_prop(
        Part::new(
            "concurrent_pipelines",
            "one log of 3-8 operations with prune points; a prefix is ingested sequentially, then 2-3 of the remaining operations are ingested (+ pruned, like the Node pipeline) by concurrent pipelines sharing the store, started while the harness holds the transaction permit (in-memory store); afterwards no entry may lie below the accepted prune point, seqs unique, links intact; non-trivial = a newer prune point is started before an older operation",
            300,
            10_000,
        )
        .min_nontrivial(0.15),
        || {
            (
                prop::collection::vec(prop::bool::weighted(0.45), 3..=8),
                0u8..6,
                prop::collection::vec(any::<u16>(), 2..=3),
                any::<u8>(),
                // File-backed multi-connection stores are not used: the prune step runs outside
                // the transaction permit (as in LogPrune) and SQLite then answers a concurrent
                // writer with SQLITE_BUSY, which is an artefact of running several pipelines on
                // one store, not a property violation.
                Just(false),
            )
                .prop_map(|(flags, prefix, racers, yields, file_backed)| Case {
                    flags,
                    prefix,
                    racers,
                    yields,
                    file_backed,
                })
        },
        move |case| fixture::runtime().block_on(run_case(case, &tmp)),
    );
}
