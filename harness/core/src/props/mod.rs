pub mod c01;
pub mod c02;
pub mod c03;
pub mod c05;
pub mod c06;
pub mod c18;
pub mod c05_concurrent;
