pub mod c06;
