//! Generated multi-author, multi-log histories and their delivery scripts (C03, C05).
//!
//! A script is plain data: per (author, log) cell one *true chain* (the author never equivocates:
//! at most one operation per (author, log, seq) exists anywhere in the script), a delivery order
//! given by sort keys, drops, duplicates, *extra* operations (validly signed by the author but
//! not linking to the log: wrong backlink / gap, at sequence numbers the true chain never uses)
//! and *forged* copies (single-field mutations of true operations, wrong-author claims).
//! Log id and prune flag live in the signed header extensions (`CustomExt`) and the harness
//! derives the `ingest_operation` arguments from them, like the stream processors do.

use std::collections::BTreeSet;

use p2panda_core::{Operation, VerifyingKey};
use serde::{Deserialize, Serialize};

use crate::factory::{Built, CustomExt, ExtKind, ExtSpec, H32, build_chain, operation, public_key, small_body, tag_hash};
use crate::model::Delivered;
use crate::mutators::FieldMutation;
use crate::oracles::reference_valid;

#[derive(Clone, Debug, Serialize, Deserialize)]
pub struct OpSpec {
    pub prune: bool,
    /// Body length, 0 = no body.
    pub body: u8,
}

#[derive(Clone, Debug, Serialize, Deserialize)]
pub struct ExtraSpec {
    pub cell: u16,
    /// Sequence number = length of the cell's true chain + `ahead`.
    pub ahead: u8,
    pub prune: bool,
    /// Backlink: id of another cell's operation (or a made-up hash when there is none).
    pub link: u16,
    pub pos: u16,
    /// Backlink to the last operation of the cell's own true chain instead (with `ahead > 0`: a
    /// plausible backlink behind a gap in the sequence numbers).
    #[serde(default)]
    pub own_tip: bool,
}

#[derive(Clone, Debug, Serialize, Deserialize)]
pub struct ForgeSpec {
    pub target: u16,
    pub mutation: FieldMutation,
    pub pos: u16,
}

#[derive(Clone, Debug, Serialize, Deserialize)]
pub struct Script {
    pub authors: u8,
    pub logs: u8,
    /// True chain per cell (`author * logs + log`); missing cells are empty.
    pub chains: Vec<Vec<OpSpec>>,
    /// Sort key per true operation (global index, cells concatenated); missing keys are 0.
    pub order: Vec<u16>,
    pub drops: Vec<u16>,
    /// (operation, position) of extra deliveries of true operations.
    pub dups: Vec<(u16, u16)>,
    pub extras: Vec<ExtraSpec>,
    pub forged: Vec<ForgeSpec>,
    /// Ingest followed by the prune step of the pipeline (`true`) or ingest only.
    pub pipeline: bool,
}

#[derive(Clone, Copy, Debug, PartialEq, Eq)]
pub enum Kind {
    True,
    Duplicate,
    Extra,
    Forged,
}

pub struct Delivery {
    pub kind: Kind,
    pub op: Operation<CustomExt>,
    /// Global index of the true operation this delivery is (a copy / forgery of).
    pub origin: Option<usize>,
    /// True operation delivered although its predecessor in the chain was not delivered before.
    pub out_of_order: bool,
}

pub type Cell = (VerifyingKey, u64);

pub struct World {
    /// Every (author, log) pair a delivery of this script can claim.
    pub universe: Vec<Cell>,
    pub deliveries: Vec<Delivery>,
}

pub fn key_of(author: u8) -> VerifyingKey {
    VerifyingKey::from_bytes(&public_key(author)).expect("factory keys are valid")
}

/// Highest author seed / log number any mutation can claim (see `mutators::strategies`).
pub const MAX_AUTHORS: u8 = 6;
pub const MAX_LOGS: u8 = 4;

impl Script {
    pub fn cells(&self) -> usize {
        self.authors as usize * self.logs as usize
    }

    pub fn chain(&self, cell: usize) -> &[OpSpec] {
        self.chains.get(cell).map(|c| c.as_slice()).unwrap_or(&[])
    }

    pub fn materialize(&self) -> World {
        let logs = self.logs.max(1) as usize;
        let n_cells = self.cells().max(1);
        // True chains.
        let mut chains: Vec<Vec<Built<CustomExt>>> = Vec::new();
        let mut all: Vec<(usize, usize)> = Vec::new();
        for cell in 0..n_cells {
            let author = (cell / logs) as u8;
            let log = (cell % logs) as u8;
            let items: Vec<(ExtSpec, Option<Vec<u8>>)> = self
                .chain(cell)
                .iter()
                .enumerate()
                .map(|(i, o)| {
                    (
                        ExtSpec::Custom {
                            log,
                            prune: o.prune,
                            tags: vec![],
                            note: String::new(),
                        },
                        small_body(o.body, (cell * 16 + i) as u8),
                    )
                })
                .collect();
            let chain = build_chain::<CustomExt>(author, &items);
            for i in 0..chain.len() {
                all.push((cell, i));
            }
            chains.push(chain);
        }
        let n_true = all.len();

        // Delivery order of the true operations.
        let mut order: Vec<usize> = (0..n_true).collect();
        order.sort_by_key(|j| self.order.get(*j).copied().unwrap_or(0));
        let dropped: BTreeSet<usize> = if n_true == 0 {
            BTreeSet::new()
        } else {
            self.drops.iter().map(|r| engine::idx(*r, n_true)).collect()
        };
        let mut list: Vec<(Kind, Operation<CustomExt>, Option<usize>)> = order
            .iter()
            .filter(|j| !dropped.contains(j))
            .map(|j| {
                let (c, i) = all[*j];
                (Kind::True, chains[c][i].op.clone(), Some(*j))
            })
            .collect();

        // Duplicates.
        if n_true > 0 {
            for (raw, pos) in &self.dups {
                let j = engine::idx(*raw, n_true);
                let (c, i) = all[j];
                let at = engine::idx(*pos, list.len() + 1);
                list.insert(at, (Kind::Duplicate, chains[c][i].op.clone(), Some(j)));
            }
        }

        // Extras: valid operations of the cell's author that do not link to the log.
        let mut used: BTreeSet<(usize, u32)> = BTreeSet::new();
        for e in &self.extras {
            let cell = engine::idx(e.cell, n_cells);
            let seq = chains[cell].len() as u32 + e.ahead as u32;
            if !used.insert((cell, seq)) {
                continue; // would equivocate with an earlier extra
            }
            let author = (cell / logs) as u8;
            let log = (cell % logs) as u8;
            let backlink: Option<H32> = if seq == 0 {
                None
            } else if e.own_tip && !chains[cell].is_empty() {
                chains[cell].last().map(|b| b.id())
            } else {
                let foreign: Vec<H32> = all.iter().filter(|(c, _)| *c != cell).map(|(c, i)| chains[*c][*i].id()).collect();
                Some(if foreign.is_empty() {
                    tag_hash(e.link)
                } else {
                    foreign[engine::idx(e.link, foreign.len())]
                })
            };
            let built = Built::<CustomExt>::new(
                author,
                seq,
                backlink,
                ExtSpec::Custom {
                    log,
                    prune: e.prune,
                    tags: vec![99],
                    note: "extra".into(),
                },
                small_body(3, e.link as u8),
            );
            let at = engine::idx(e.pos, list.len() + 1);
            list.insert(at, (Kind::Extra, built.op, None));
        }

        // Forged copies.
        if n_true > 0 {
            for f in &self.forged {
                let j = engine::idx(f.target, n_true);
                let (c, i) = all[j];
                let t = &chains[c][i];
                let Some(m) = f.mutation.apply(&t.fields, &t.sig, t.body.as_deref()) else {
                    continue;
                };
                let op = operation(m.fields.header::<CustomExt>(m.sig.as_ref()), m.body.as_deref());
                let at = engine::idx(f.pos, list.len() + 1);
                list.insert(at, (Kind::Forged, op, Some(j)));
            }
        }

        // Out-of-order classification of true deliveries.
        let mut delivered: BTreeSet<usize> = BTreeSet::new();
        let mut deliveries = Vec::with_capacity(list.len());
        for (kind, op, origin) in list {
            let mut out_of_order = false;
            if let (Kind::True | Kind::Duplicate, Some(j)) = (kind, origin) {
                let (_, i) = all[j];
                if i > 0 && !delivered.contains(&(j - 1)) {
                    out_of_order = true;
                }
                delivered.insert(j);
            }
            deliveries.push(Delivery {
                kind,
                op,
                origin,
                out_of_order,
            });
        }

        let mut universe = Vec::new();
        for a in 0..MAX_AUTHORS.max(self.authors) {
            for l in 0..MAX_LOGS.max(self.logs) {
                universe.push((key_of(a), l as u64));
            }
        }
        World { universe, deliveries }
    }
}

/// What the reference model needs to know about a delivered operation; validity comes from the
/// C01 reference predicate, everything else from the delivered header's own field values.
pub fn delivered_info(op: &Operation<CustomExt>) -> Delivered {
    let body = op.body.as_ref().map(|b| b.to_bytes());
    Delivered {
        valid: reference_valid(&op.header.to_bytes(), body.as_deref(), ExtKind::Custom),
        id: *op.hash.as_bytes(),
        author: *op.header.verifying_key.as_bytes(),
        log: op.header.extensions.log as u64,
        seq: op.header.seq_num,
        backlink: op.header.backlink.map(|h| *h.as_bytes()),
        prune: op.header.extensions.prune,
    }
}

pub fn claimed_cell(op: &Operation<CustomExt>) -> Cell {
    (op.header.verifying_key, op.header.extensions.log as u64)
}

/// How the sort keys of the true operations are produced.
#[derive(Clone, Debug)]
pub enum OrderMode {
    /// Every chain in order.
    InOrder,
    /// Local reordering: key = 16 * position + noise.
    Jitter(Vec<u16>),
    /// Arbitrary permutation.
    Random(Vec<u16>),
    /// Per chain the segments between prune points newest first (later prune point delivered
    /// before the older operations), small noise inside.
    NewestSegmentFirst(Vec<u16>),
    /// Whole chains reversed.
    Reversed,
}

pub fn order_keys(chains: &[Vec<OpSpec>], mode: &OrderMode) -> Vec<u16> {
    let mut keys = Vec::new();
    let mut j = 0usize;
    for chain in chains {
        let segments = chain.iter().skip(1).filter(|o| o.prune).count();
        let mut seg = 0usize;
        for (i, o) in chain.iter().enumerate() {
            if i > 0 && o.prune {
                seg += 1;
            }
            let noise = |v: &Vec<u16>| v.get(j).copied().unwrap_or(0);
            let k = match mode {
                OrderMode::InOrder => i as u16,
                OrderMode::Jitter(v) => (i as u16) * 16 + noise(v) % 48,
                OrderMode::Random(v) => noise(v),
                OrderMode::NewestSegmentFirst(v) => ((segments - seg) as u16) * 1024 + (i as u16) * 8 + noise(v) % 24,
                OrderMode::Reversed => (chain.len() - i) as u16,
            };
            keys.push(k);
            j += 1;
        }
    }
    keys
}

pub mod strategies {
    use engine::proptest::prelude::*;

    use super::*;
    use crate::mutators::strategies::field_mutation;

    pub fn op_spec(p_prune: f64) -> impl Strategy<Value = OpSpec> {
        (prop::bool::weighted(p_prune), prop_oneof![1 => Just(0u8), 2 => 1u8..12]).prop_map(|(prune, body)| OpSpec { prune, body })
    }

    pub fn order_mode(n: usize) -> impl Strategy<Value = OrderMode> {
        prop_oneof![
            1 => Just(OrderMode::InOrder),
            3 => prop::collection::vec(0u16..48, n).prop_map(OrderMode::Jitter),
            3 => prop::collection::vec(any::<u16>(), n).prop_map(OrderMode::Random),
            2 => prop::collection::vec(0u16..24, n).prop_map(OrderMode::NewestSegmentFirst),
            1 => Just(OrderMode::Reversed),
        ]
    }

    pub fn extras(max: usize) -> impl Strategy<Value = Vec<ExtraSpec>> {
        prop::collection::vec(
            (any::<u16>(), 0u8..3, prop::bool::weighted(0.4), any::<u16>(), any::<u16>(), prop::bool::weighted(0.4))
                .prop_map(|(cell, ahead, prune, link, pos, own_tip)| ExtraSpec { cell, ahead, prune, link, pos, own_tip }),
            0..=max,
        )
    }

    pub fn forged(max: usize) -> impl Strategy<Value = Vec<ForgeSpec>> {
        prop::collection::vec(
            (any::<u16>(), field_mutation(), any::<u16>()).prop_map(|(target, mutation, pos)| ForgeSpec { target, mutation, pos }),
            0..=max,
        )
    }

    /// Chains are always generated for the maximal number of cells and cut to `authors * logs`
    /// afterwards (no `prop_flat_map`, so that cases shrink well).
    fn finish(
        authors: u8,
        logs: u8,
        mut chains: Vec<Vec<OpSpec>>,
        mode: OrderMode,
        drops: Vec<u16>,
        dups: Vec<(u16, u16)>,
        extras: Vec<ExtraSpec>,
        forged: Vec<ForgeSpec>,
        pipeline: bool,
    ) -> Script {
        chains.truncate(authors as usize * logs as usize);
        let order = order_keys(&chains, &mode);
        Script {
            authors,
            logs,
            chains,
            order,
            drops,
            dups,
            extras,
            forged,
            pipeline,
        }
    }

    /// C03: 1..3 authors x 1..2 logs, chains of 0..max_len operations, prune flags p = 0.2.
    pub fn c03_script(max_len: usize) -> impl Strategy<Value = Script> {
        (
            1u8..=3,
            1u8..=2,
            prop::collection::vec(prop::collection::vec(op_spec(0.2), 0..=max_len), 6),
            order_mode(6 * max_len),
            prop::collection::vec(any::<u16>(), 0..=3),
            prop::collection::vec((any::<u16>(), any::<u16>()), 0..=5),
            extras(4),
            forged(6),
            any::<bool>(),
        )
            .prop_map(|(authors, logs, chains, mode, drops, dups, extras, forged, pipeline)| {
                finish(authors, logs, chains, mode, drops, dups, extras, forged, pipeline)
            })
    }

    /// A chain of 4..max_len operations with at least two prune points at seq >= 1.
    fn c05_chain(max_len: usize) -> impl Strategy<Value = Vec<OpSpec>> {
        (prop::collection::vec(op_spec(0.2), 4..=max_len), any::<u16>(), any::<u16>()).prop_map(|(mut ops, a, b)| {
            let n = ops.len();
            let p1 = 1 + engine::idx(a, n - 1);
            let mut p2 = 1 + engine::idx(b, n - 1);
            if p2 == p1 {
                p2 = if p1 + 1 < n { p1 + 1 } else { p1 - 1 };
            }
            ops[p1].prune = true;
            ops[p2.max(1)].prune = true;
            ops
        })
    }

    /// C05: 1..2 authors x 1..2 logs, chains of 4..max_len operations with at least two prune
    /// points, orders biased to "newer prune point first".
    pub fn c05_script(max_len: usize) -> impl Strategy<Value = Script> {
        let n = 4 * max_len;
        let mode = prop_oneof![
            5 => prop::collection::vec(0u16..24, n).prop_map(OrderMode::NewestSegmentFirst),
            2 => prop::collection::vec(any::<u16>(), n).prop_map(OrderMode::Random),
            1 => Just(OrderMode::Reversed),
            1 => prop::collection::vec(0u16..48, n).prop_map(OrderMode::Jitter),
        ];
        (
            1u8..=2,
            1u8..=2,
            prop::collection::vec(c05_chain(max_len), 4),
            mode,
            prop::collection::vec(any::<u16>(), 0..=2),
            prop::collection::vec((any::<u16>(), any::<u16>()), 0..=4),
            prop::bool::weighted(0.8),
        )
            .prop_map(|(authors, logs, chains, mode, drops, dups, pipeline)| {
                finish(authors, logs, chains, mode, drops, dups, vec![], vec![], pipeline)
            })
    }
}
