//! Checks of the net group: C26 C27 C28 C29.
mod props;
#[path = "../../../fuzz/oracles/c26.rs"]
mod fuzz_c26;

fn main() {
    let ctx = engine::Ctx::from_args();
    match ctx.id.as_str() {
        "C26" => props::c26::run(ctx),
        "C27" => props::c27::run(ctx),
        "C28" => props::c28::run(ctx),
        "C29" => props::c29::run(ctx),
        other => engine::harness_error(&format!("property {other} is not served by verif-net")),
    }
}
