//! C28 Discovery backoff stays within its configured bounds.
//!
//! Generated: default and custom configs (initial <= max, min_inc < max_inc, min_reset <
//! max_reset – the preconditions of the RNG ranges the constructor draws from), every ChaCha20
//! seed from the case, sequences of `increment`, `reset` and `elapse(d)` (hook: pretends that `d`
//! passed since the last reset). The private type is reached through hook accessors.
//!
//! Oracle after every call: `initial <= value <= max`; an `increment` whose reset interval had
//! fully elapsed returns the value to `initial`; without an elapsed interval increments never
//! decrease the value.

use std::time::Duration;

use engine::proptest::prelude::*;
use engine::{CaseOk, CaseResult, Ctx, Part, ensure};
use p2panda_net::discovery::verif::{Backoff, BackoffConfig};
use rand::SeedableRng;
use rand_chacha::ChaCha20Rng;
use serde::{Deserialize, Serialize};

#[derive(Clone, Debug, Serialize, Deserialize)]
struct Cfg {
    initial_ms: u32,
    span_ms: u32,
    min_inc_ms: u32,
    inc_span_ms: u32,
    min_reset_ms: u32,
    reset_span_ms: u32,
}

#[derive(Clone, Debug, Serialize, Deserialize)]
enum Op {
    Increment,
    Reset,
    ElapseMs(u32),
    /// Elapse exactly what is left of the reset interval.
    ElapseRest,
}

#[derive(Clone, Debug, Serialize, Deserialize)]
struct Case {
    cfg: Option<Cfg>,
    seed: [u8; 32],
    ops: Vec<Op>,
}

/// Real time that certainly does not pass inside one case (cases take microseconds).
const REAL_TIME_MARGIN: Duration = Duration::from_secs(20);

fn check(case: &Case) -> CaseResult {
    let (config, initial, max, max_inc) = match &case.cfg {
        None => (
            BackoffConfig::default(),
            Duration::from_secs(0),
            Duration::from_secs(30),
            Duration::from_secs(5),
        ),
        Some(c) => {
            let initial = Duration::from_millis(c.initial_ms as u64);
            let max = initial + Duration::from_millis(c.span_ms as u64);
            let min_inc = Duration::from_millis(c.min_inc_ms as u64);
            let max_inc = min_inc + Duration::from_millis(c.inc_span_ms as u64 + 1);
            let min_reset = Duration::from_millis(c.min_reset_ms as u64);
            let max_reset = min_reset + Duration::from_millis(c.reset_span_ms as u64 + 1);
            (
                BackoffConfig::verif_new(initial, min_inc, max_inc, max, min_reset, max_reset),
                initial,
                max,
                max_inc,
            )
        }
    };
    let mut b = Backoff::new(config, ChaCha20Rng::from_seed(case.seed));
    let in_bounds = |b: &Backoff, what: &str, i: usize| -> Result<(), String> {
        let v = b.verif_value();
        ensure!(v >= initial, "value {v:?} below the initial value {initial:?} after {what} (op {i})");
        ensure!(v <= max, "value {v:?} above the configured maximum {max:?} after {what} (op {i})");
        Ok(())
    };
    in_bounds(&b, "new", 0)?;

    let mut near_max = false;
    let mut resets_by_time = 0;
    let mut reached_max = false;
    for (i, op) in case.ops.iter().enumerate() {
        match op {
            Op::Increment => {
                let before = b.verif_value();
                let remaining = b.verif_reset_after();
                b.increment();
                in_bounds(&b, "increment", i)?;
                let after = b.verif_value();
                if remaining.is_zero() {
                    // The interval has certainly elapsed.
                    ensure!(
                        after == initial,
                        "reset interval elapsed but increment left the value at {after:?} instead of the initial {initial:?} (op {i})"
                    );
                    resets_by_time += 1;
                } else if remaining > REAL_TIME_MARGIN {
                    // The interval has certainly not elapsed: increments are monotone.
                    ensure!(after >= before, "increment decreased the value {before:?} -> {after:?} without a reset (op {i})");
                }
                if max.saturating_sub(after) <= max_inc {
                    near_max = true;
                }
                if after == max {
                    reached_max = true;
                }
            }
            Op::Reset => {
                b.reset();
                in_bounds(&b, "reset", i)?;
                ensure!(b.verif_value() == initial, "reset did not return to the initial value (op {i})");
            }
            Op::ElapseMs(ms) => {
                b.verif_elapse(Duration::from_millis(*ms as u64));
                in_bounds(&b, "elapse", i)?;
            }
            Op::ElapseRest => {
                let rest = b.verif_reset_after();
                b.verif_elapse(rest);
            }
        }
    }
    Ok(CaseOk::nontrivial(near_max)
        .label_if(case.cfg.is_none(), "default_config")
        .label_if(resets_by_time > 0, "reset_by_elapsed_time")
        .label_if(reached_max, "value_exactly_max"))
}

fn cfg() -> impl Strategy<Value = Option<Cfg>> {
    prop::option::weighted(
        0.6,
        (0u32..5_000, prop_oneof![Just(0u32), 0u32..2_000, 0u32..60_000], 0u32..5_000, 0u32..10_000, 0u32..200_000, 0u32..200_000).prop_map(
            |(initial_ms, span_ms, min_inc_ms, inc_span_ms, min_reset_ms, reset_span_ms)| Cfg {
                initial_ms,
                span_ms,
                min_inc_ms,
                inc_span_ms,
                min_reset_ms,
                reset_span_ms,
            },
        ),
    )
}

pub fn run(mut ctx: Ctx) -> ! {
    ctx.assume("configs satisfy initial <= max, min_increment < max_increment, min_reset < max_reset (empty RNG ranges panic in the constructor; every caller uses the default config)");
    ctx.assume("elapsed time is emulated through the hook by shortening the remaining reset interval; the 'has certainly elapsed / certainly not elapsed' classes keep a 20 s margin to real time, the band in between is not asserted");
    ctx.run_prop(
        Part::new(
            "backoff_sequences",
            "default or generated config, any ChaCha20 seed, <=200 operations of increment (weight 8), reset, elapse(ms) and elapse(rest of the interval); non-trivial = the value comes within max_increment of the maximum",
            5_000,
            500_000,
        )
        .min_nontrivial(0.2),
        || {
            (
                cfg(),
                any::<[u8; 32]>(),
                prop::collection::vec(
                    prop_oneof![
                        8 => Just(Op::Increment),
                        1 => Just(Op::Reset),
                        1 => prop_oneof![0u32..1000, 0u32..100_000, 0u32..400_000].prop_map(Op::ElapseMs),
                        1 => Just(Op::ElapseRest),
                    ],
                    0..200,
                ),
            )
                .prop_map(|(cfg, seed, ops)| Case { cfg, seed, ops })
        },
        check,
    );
    ctx.finish()
}
