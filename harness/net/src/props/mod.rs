pub mod c26;
pub mod c27;
pub mod c28;
pub mod c29;
