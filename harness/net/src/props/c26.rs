//! C26 Wire framing decodes exactly the encoded message sequence.
//!
//! Generated: sequences of 0–20 messages of several shapes (bytes, text, tuples, nested enums and
//! the real `TopicLogSyncMessage<LogId, Extensions>` of the sync protocol), a frame limit
//! (0–4096 or the default), and chunk boundaries (1-byte chunks and cuts inside the 4-byte length
//! prefix included). The concatenated encoding is fed through `FramedRead` over an `AsyncRead`
//! that hands out exactly the generated chunks.
//!
//! Oracle: an independent framing reference written here (`u32` big-endian length ++
//! `postcard::to_allocvec`): `encode` appends exactly the reference bytes and fails iff the
//! postcard size exceeds the limit; decoding any chunking of the reference stream yields exactly
//! the messages, in order, then end of stream; with a smaller decode limit the first frame whose
//! length prefix exceeds the limit yields `TooLargeMessage` and every earlier frame still decodes.

use std::collections::BTreeMap;
use std::pin::Pin;
use std::task::{Context, Poll};

use engine::proptest::prelude::*;
use engine::{CaseOk, CaseResult, Ctx, Part, ensure, ensure_eq, idx};
use futures_util::StreamExt;
use p2panda::operation::{Extensions, LogId};
use p2panda_core::{Body, Header, SigningKey, Topic};
use p2panda_net::codec::{Codec, CodecError};
use p2panda_sync::protocols::{LogSyncMessage, TopicLogSyncMessage};
use serde::{Deserialize, Serialize};
use tokio::io::{AsyncRead, ReadBuf};
use tokio_util::bytes::BytesMut;
use tokio_util::codec::{Encoder, FramedRead};

#[derive(Clone, Debug, PartialEq, Serialize, Deserialize)]
enum Msg {
    Unit,
    Bytes(Vec<u8>),
    Text(String),
    Pair(u32, String),
    Nested { list: Vec<(u8, u64)>, inner: Option<Box<Msg>> },
    Wide([u64; 4]),
}

#[derive(Clone, Debug, Serialize, Deserialize)]
enum SyncSpec {
    Have(Vec<(u8, u8, u32)>),
    PreSync(u32, u32),
    Operation(Vec<u8>, Option<Vec<u8>>),
    Done,
    Live { author: u8, seq: u32, body: Option<Vec<u8>>, prune: bool },
    Close,
}

#[derive(Clone, Debug, Serialize, Deserialize)]
struct Case<S> {
    msgs: Vec<S>,
    /// `None` = default limit (128 MiB).
    encode_limit: Option<u16>,
    decode_limit: Option<u16>,
    cuts: Vec<u16>,
    one_byte_chunks: bool,
}

/// AsyncRead handing out exactly the given chunks (one per poll, with an occasional spurious
/// `Pending` that wakes itself).
struct Chunked {
    chunks: Vec<Vec<u8>>,
    next: usize,
    offset: usize,
    hiccup: bool,
}

impl AsyncRead for Chunked {
    fn poll_read(mut self: Pin<&mut Self>, cx: &mut Context<'_>, buf: &mut ReadBuf<'_>) -> Poll<std::io::Result<()>> {
        if self.next >= self.chunks.len() {
            return Poll::Ready(Ok(())); // EOF
        }
        if self.hiccup && self.offset == 0 && self.next % 3 == 1 {
            self.hiccup = false;
            cx.waker().wake_by_ref();
            return Poll::Pending;
        }
        self.hiccup = true;
        let (next, offset) = (self.next, self.offset);
        let chunk = &self.chunks[next][offset..];
        let n = chunk.len().min(buf.remaining());
        buf.put_slice(&chunk[..n]);
        if n == chunk.len() {
            self.next += 1;
            self.offset = 0;
        } else {
            self.offset += n;
        }
        Poll::Ready(Ok(()))
    }
}

fn reference_frame<M: Serialize>(m: &M) -> Vec<u8> {
    let body = postcard::to_allocvec(m).expect("postcard");
    let mut out = (body.len() as u32).to_be_bytes().to_vec();
    out.extend(body);
    out
}

const DEFAULT_LIMIT: usize = 1024 * 1024 * 128;

fn check_generic<M>(msgs: &[M], case_limits: (Option<u16>, Option<u16>), cuts: &[u16], one_byte: bool) -> CaseResult
where
    M: Serialize + serde::de::DeserializeOwned + PartialEq + std::fmt::Debug + Clone + 'static,
{
    let enc_limit = case_limits.0.map(|l| l as usize).unwrap_or(DEFAULT_LIMIT);
    let dec_limit = case_limits.1.map(|l| l as usize).unwrap_or(DEFAULT_LIMIT);

    // 1. Encoder: accepts iff size <= limit and appends exactly the reference frame.
    let mut enc = Codec::<M>::new().max_frame_len(enc_limit);
    let mut buf = BytesMut::new();
    let mut reference_all = Vec::new();
    let mut boundary_sizes = false;
    for (i, m) in msgs.iter().enumerate() {
        let frame = reference_frame(m);
        let size = frame.len() - 4;
        if size + 1 >= enc_limit && size <= enc_limit + 1 {
            boundary_sizes = true;
        }
        let before = buf.len();
        match enc.encode(m.clone(), &mut buf) {
            Ok(()) => {
                ensure!(size <= enc_limit, "message {i} of postcard size {size} was encoded although the limit is {enc_limit}");
                ensure_eq!(buf[before..].to_vec(), frame, "encoder output of message {i} differs from length-prefixed postcard");
            }
            Err(CodecError::TooLargeMessage(..)) => {
                ensure!(size > enc_limit, "message {i} of postcard size {size} was rejected although the limit is {enc_limit}");
                ensure!(buf.len() == before, "rejected message {i} left bytes in the buffer");
            }
            Err(e) => return Err(format!("encoder failed on message {i}: {e}")),
        }
        reference_all.push(frame);
    }

    // 2. Decoder over a chunked stream of *all* reference frames.
    let stream_bytes: Vec<u8> = reference_all.iter().flatten().copied().collect();
    let mut frame_starts = Vec::new();
    let mut acc = 0;
    for f in &reference_all {
        frame_starts.push(acc);
        acc += f.len();
    }
    let mut positions: Vec<usize> = if one_byte {
        (1..stream_bytes.len()).collect()
    } else {
        cuts.iter().map(|c| idx(*c, stream_bytes.len().max(1))).filter(|p| *p > 0).collect()
    };
    positions.sort();
    positions.dedup();
    let cut_in_prefix = positions.iter().filter(|p| frame_starts.iter().any(|s| **p > *s && **p < *s + 4)).count();
    let mut chunks = Vec::new();
    let mut last = 0;
    for p in positions.iter().chain(std::iter::once(&stream_bytes.len())) {
        if *p > last {
            chunks.push(stream_bytes[last..*p].to_vec());
            last = *p;
        }
    }

    let expected_ok: Vec<&M> = msgs
        .iter()
        .zip(&reference_all)
        .take_while(|(_, f)| f.len() - 4 <= dec_limit)
        .map(|(m, _)| m)
        .collect();
    let expect_error = expected_ok.len() < msgs.len();

    let rt = tokio::runtime::Builder::new_current_thread().build().map_err(|e| e.to_string())?;
    let decoded: Result<(Vec<M>, Option<String>), String> = rt.block_on(async {
        let reader = Chunked {
            chunks,
            next: 0,
            offset: 0,
            hiccup: true,
        };
        let mut framed = FramedRead::new(reader, Codec::<M>::new().max_frame_len(dec_limit));
        let mut out = Vec::new();
        let mut guard = 0;
        loop {
            guard += 1;
            if guard > 10_000 {
                return Err("decoder does not terminate".to_string());
            }
            match framed.next().await {
                Some(Ok(m)) => out.push(m),
                Some(Err(CodecError::TooLargeMessage(len, max))) => {
                    return Ok((out, Some(format!("too_large({len},{max})"))));
                }
                Some(Err(e)) => return Ok((out, Some(format!("other: {e}")))),
                None => return Ok((out, None)),
            }
        }
    });
    let (out, err) = decoded?;
    ensure_eq!(out.len(), expected_ok.len(), "decoded {} messages, expected {} (error: {err:?})", out.len(), expected_ok.len());
    for (i, (got, want)) in out.iter().zip(&expected_ok).enumerate() {
        ensure!(got == *want, "decoded message {i} differs: {got:?} vs {want:?}");
    }
    match (&err, expect_error) {
        (None, false) => {}
        (Some(e), true) if e.starts_with("too_large") => {}
        (Some(e), false) => return Err(format!("decoder failed on a stream of frames within the limit: {e}")),
        (None, true) => return Err("a frame larger than the limit was not rejected by the decoder".into()),
        (Some(e), true) => return Err(format!("oversized frame rejected with the wrong error: {e}")),
    }

    Ok(CaseOk::nontrivial(msgs.len() >= 2 && cut_in_prefix >= 1)
        .label_if(cut_in_prefix >= 1, "cut_inside_length_prefix")
        .label_if(one_byte, "one_byte_chunks")
        .label_if(boundary_sizes, "frame_size_at_limit_boundary")
        .label_if(expect_error, "oversized_frame_on_decode")
        .label_if(msgs.is_empty(), "empty_sequence"))
}

fn build_sync(spec: &SyncSpec) -> TopicLogSyncMessage<LogId, Extensions> {
    match spec {
        SyncSpec::Have(v) => {
            let mut h: BTreeMap<_, BTreeMap<LogId, u32>> = BTreeMap::new();
            for (a, l, s) in v {
                let key = SigningKey::from_bytes(&[*a % 4 + 1; 32]).verifying_key();
                h.entry(key).or_default().insert(LogId::from_topic(Topic::from([*l % 4; 32])), *s);
            }
            TopicLogSyncMessage::Sync(LogSyncMessage::Have(h))
        }
        SyncSpec::PreSync(a, b) => TopicLogSyncMessage::Sync(LogSyncMessage::PreSync {
            total_operations: *a,
            total_bytes: *b,
        }),
        SyncSpec::Operation(h, b) => TopicLogSyncMessage::Sync(LogSyncMessage::Operation(h.clone(), b.clone())),
        SyncSpec::Done => TopicLogSyncMessage::Sync(LogSyncMessage::Done),
        SyncSpec::Close => TopicLogSyncMessage::Close,
        SyncSpec::Live { author, seq, body, prune } => {
            let key = SigningKey::from_bytes(&[*author % 4 + 1; 32]);
            let body = body.as_ref().map(|b| Body::new(b));
            let mut header = Header::<Extensions> {
                version: 1,
                verifying_key: key.verifying_key(),
                signature: None,
                payload_size: body.as_ref().map(|b| b.size()).unwrap_or(0),
                payload_hash: body.as_ref().filter(|b| b.size() > 0).map(|b| b.hash()),
                seq_num: *seq,
                backlink: if *seq > 0 { Some(p2panda_core::Hash::digest(b"prev")) } else { None },
                extensions: Extensions::from_topic(Topic::from([9; 32])).set_prune_flag(*prune),
            };
            header.sign(&key);
            let body = body.filter(|b| b.size() > 0);
            TopicLogSyncMessage::Live(header, body)
        }
    }
}

fn msg(depth: u32) -> BoxedStrategy<Msg> {
    let leaf = prop_oneof![
        Just(Msg::Unit),
        prop::collection::vec(any::<u8>(), 0..300).prop_map(Msg::Bytes),
        "[ -~]{0,80}".prop_map(Msg::Text),
        (any::<u32>(), "[a-z]{0,10}").prop_map(|(a, b)| Msg::Pair(a, b)),
        any::<[u64; 4]>().prop_map(Msg::Wide),
    ];
    if depth == 0 {
        leaf.boxed()
    } else {
        prop_oneof![
            4 => leaf,
            1 => (prop::collection::vec((any::<u8>(), any::<u64>()), 0..6), prop::option::of(msg(depth - 1)))
                .prop_map(|(list, inner)| Msg::Nested { list, inner: inner.map(Box::new) }),
        ]
        .boxed()
    }
}

fn limits() -> impl Strategy<Value = (Option<u16>, Option<u16>)> {
    let l = || prop::option::weighted(0.6, prop_oneof![0u16..40, 0u16..400, 0u16..4096]);
    (l(), l())
}

fn sync_spec() -> impl Strategy<Value = SyncSpec> {
    prop_oneof![
        prop::collection::vec((any::<u8>(), any::<u8>(), any::<u32>()), 0..6).prop_map(SyncSpec::Have),
        (any::<u32>(), any::<u32>()).prop_map(|(a, b)| SyncSpec::PreSync(a, b)),
        (prop::collection::vec(any::<u8>(), 0..200), prop::option::of(prop::collection::vec(any::<u8>(), 0..200)))
            .prop_map(|(a, b)| SyncSpec::Operation(a, b)),
        Just(SyncSpec::Done),
        (any::<u8>(), prop_oneof![Just(0u32), any::<u32>()], prop::option::of(prop::collection::vec(any::<u8>(), 0..100)), any::<bool>())
            .prop_map(|(author, seq, body, prune)| SyncSpec::Live { author, seq, body, prune }),
        Just(SyncSpec::Close),
    ]
}

fn case<S: std::fmt::Debug + Clone + 'static>(item: impl Strategy<Value = S> + 'static) -> impl Strategy<Value = Case<S>> {
    (
        prop::collection::vec(item, 0..=20),
        limits(),
        prop::collection::vec(any::<u16>(), 0..30),
        prop::bool::weighted(0.15),
        any::<bool>(),
    )
        .prop_map(|(msgs, (encode_limit, decode_limit), cuts, one_byte_chunks, same)| Case {
            msgs,
            encode_limit,
            decode_limit: if same { encode_limit } else { decode_limit },
            cuts,
            one_byte_chunks,
        })
}

/// Writes a few valid frame streams as seed corpus of the `c26_codec` fuzz target.
fn seed_corpus(ctx: &Ctx) {
    use crate::fuzz_c26::FuzzMsg;
    let dir = ctx.verif_dir.join("fuzz").join("corpus").join("c26_codec");
    if dir.exists() {
        return;
    }
    std::fs::create_dir_all(&dir).ok();
    let streams: Vec<Vec<FuzzMsg>> = vec![
        vec![FuzzMsg::D],
        vec![FuzzMsg::A(vec![1, 2, 3]), FuzzMsg::B("hello".into())],
        vec![FuzzMsg::C(7, u64::MAX), FuzzMsg::D, FuzzMsg::A(vec![0; 40])],
        vec![FuzzMsg::B("x".repeat(70)), FuzzMsg::C(0, 0)],
    ];
    for (i, msgs) in streams.iter().enumerate() {
        for sel in [0u8, 1, 2, 3] {
            let mut bytes = vec![sel, (i as u8) * 37 + sel];
            for m in msgs {
                bytes.extend(reference_frame(m));
            }
            std::fs::write(dir.join(format!("seed-{i}-{sel}")), bytes).ok();
        }
    }
}

pub fn run(mut ctx: Ctx) -> ! {
    seed_corpus(&ctx);
    ctx.run_fuzz(
        engine::fuzz::FuzzSpec {
            target: "c26_codec",
            rule: "libFuzzer over arbitrary byte streams: decoding in one piece, decoding in generated chunks and a reference frame walker must agree on the decoded items and on where/why decoding stops; every decoded item round-trips; non-trivial = >=2 frames decoded",
            thorough_secs: 90,
        },
        crate::fuzz_c26::c26_oracle,
    );
    ctx.assume("reference framing = u32 big-endian length ++ postcard::to_allocvec (the documented wire format)");
    ctx.run_prop(
        Part::new(
            "generic_messages",
            "0-20 messages (unit, bytes, text, pair, nested, wide) with encode/decode limits 0..4096 or default and generated chunk boundaries (15% all 1-byte chunks); non-trivial = >=2 frames with a cut inside a length prefix",
            3_000,
            200_000,
        )
        .min_nontrivial(0.15),
        || case(msg(2)),
        |c: &Case<Msg>| check_generic(&c.msgs, (c.encode_limit, c.decode_limit), &c.cuts, c.one_byte_chunks),
    );
    ctx.run_prop(
        Part::new(
            "sync_protocol_messages",
            "0-20 real TopicLogSyncMessage<LogId, Extensions> values (Have, PreSync, Operation, Done, Live with signed header, Close), same limits and chunking; non-trivial = >=2 frames with a cut inside a length prefix",
            1_500,
            100_000,
        )
        .min_nontrivial(0.15),
        || case(sync_spec()),
        |c: &Case<SyncSpec>| {
            let msgs: Vec<TopicLogSyncMessage<LogId, Extensions>> = c.msgs.iter().map(build_sync).collect();
            check_generic(&msgs, (c.encode_limit, c.decode_limit), &c.cuts, c.one_byte_chunks)
        },
    );
    ctx.finish()
}
