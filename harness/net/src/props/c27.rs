//! C27 Address book keeps the newest authentic transport info per node.
//!
//! Generated: 1–3 nodes, 1–10 transport records each with pairwise distinct hybrid timestamps and
//! kinds {authentically signed, signed by another key, signature bit flipped, timestamp changed
//! after signing, trusted with matching id, trusted with a foreign id}; every arrival order for
//! up to 5 records of one node, generated orders beyond. Applied to `NodeInfo::update_transports`
//! directly and through a spawned `AddressBook` (`insert_transport_info`).
//!
//! Oracle after every delivery: the stored record is the authentic record with the maximal
//! timestamp among those delivered so far (none if no authentic one arrived); non-authentic
//! records return `Err` and never become the stored record; the boolean result says whether the
//! record replaced the stored one.

use std::collections::BTreeMap;
use std::net::SocketAddr;
use std::time::Duration;

use engine::proptest::prelude::*;
use engine::{CaseOk, CaseResult, Ctx, Part, Watchdog, ensure, ensure_eq, permutation};
use p2panda_core::SigningKey;
use p2panda_core::timestamp::{HybridTimestamp, LamportTimestamp, Timestamp};
use p2panda_net::AddressBook;
use p2panda_net::addrs::{
    AuthenticatedTransportInfo, NodeInfo, TransportAddress, TransportInfo, TrustedTransportInfo, UnsignedTransportInfo,
};
use serde::{Deserialize, Serialize};

#[derive(Clone, Debug, PartialEq, Serialize, Deserialize)]
enum Kind {
    Signed,
    SignedByOther,
    SignatureBitFlipped(u16),
    TimestampChangedAfterSigning,
    TrustedMatching,
    TrustedForeignId,
    SignedEmpty,
}

#[derive(Clone, Debug, Serialize, Deserialize)]
struct Record {
    node: u8,
    kind: Kind,
    port: u16,
}

#[derive(Clone, Debug, Serialize, Deserialize)]
struct Case {
    records: Vec<Record>,
    /// Timestamps are assigned as a permutation of distinct values, so that "newest" and arrival
    /// order are independent.
    stamp_keys: Vec<u16>,
    order_keys: Vec<u16>,
    logical_mode: bool,
    /// Gives record `b` (mapped index) the same timestamp as record `a`: an equal timestamp is
    /// not "strictly newer", so whichever of the two authentic records arrives second must not
    /// replace the first.
    same_stamp: Option<(u16, u16)>,
}

fn key(node: u8) -> SigningKey {
    SigningKey::from_bytes(&[0x30 + node % 3; 32])
}

fn other_key() -> SigningKey {
    SigningKey::from_bytes(&[0x77; 32])
}

fn stamp(rank: usize, logical_mode: bool) -> HybridTimestamp {
    if logical_mode {
        // Same wall-clock part, ordered by the logical part only.
        HybridTimestamp::from_parts(Timestamp::new(1_000_000), LamportTimestamp::new(rank as u64))
    } else {
        HybridTimestamp::from_parts(Timestamp::new(1_000 + 10 * rank as u64), LamportTimestamp::new((7 * rank as u64) % 3))
    }
}

fn addr(owner: &SigningKey, port: u16) -> TransportAddress {
    let sock: SocketAddr = format!("127.0.0.1:{}", 1024 + (port % 60000)).parse().unwrap();
    TransportAddress::from_iroh(owner.verifying_key(), None, [sock])
}

/// Builds the record; returns (info, authentic?).
fn build(r: &Record, ts: HybridTimestamp) -> (TransportInfo, bool) {
    let node_key = key(r.node);
    let unsigned = |owner: &SigningKey| UnsignedTransportInfo {
        timestamp: ts,
        addresses: vec![addr(owner, r.port)],
    };
    match &r.kind {
        Kind::Signed => (unsigned(&node_key).sign(&node_key).unwrap().into(), true),
        Kind::SignedEmpty => (
            UnsignedTransportInfo {
                timestamp: ts,
                addresses: vec![],
            }
            .sign(&node_key)
            .unwrap()
            .into(),
            true,
        ),
        Kind::SignedByOther => (unsigned(&node_key).sign(&other_key()).unwrap().into(), false),
        Kind::SignatureBitFlipped(pos) => {
            let good = unsigned(&node_key).sign(&node_key).unwrap();
            let mut sig = good.signature.to_bytes();
            let bit = engine::idx(*pos, sig.len() * 8);
            sig[bit / 8] ^= 1 << (bit % 8);
            let info = AuthenticatedTransportInfo {
                timestamp: good.timestamp,
                signature: p2panda_core::Signature::from_bytes(&sig),
                addresses: good.addresses,
            };
            (info.into(), false)
        }
        Kind::TimestampChangedAfterSigning => {
            // Signed for an old timestamp, then re-dated to the claimed one.
            let old = UnsignedTransportInfo {
                timestamp: HybridTimestamp::from_parts(Timestamp::new(1), LamportTimestamp::new(0)),
                addresses: vec![addr(&node_key, r.port)],
            }
            .sign(&node_key)
            .unwrap();
            let info = AuthenticatedTransportInfo {
                timestamp: ts,
                signature: old.signature,
                addresses: old.addresses,
            };
            (info.into(), false)
        }
        Kind::TrustedMatching => (
            TransportInfo::Trusted(TrustedTransportInfo {
                timestamp: ts,
                addresses: vec![addr(&node_key, r.port)],
            }),
            true,
        ),
        Kind::TrustedForeignId => (
            TransportInfo::Trusted(TrustedTransportInfo {
                timestamp: ts,
                addresses: vec![addr(&other_key(), r.port)],
            }),
            false,
        ),
    }
}

struct Prepared {
    node: u8,
    info: TransportInfo,
    authentic: bool,
    ts: HybridTimestamp,
}

fn prepare(case: &Case) -> Vec<Prepared> {
    let mut ranks = permutation(&case.stamp_keys, case.records.len());
    if let Some((a, b)) = case.same_stamp {
        let n = ranks.len();
        if n >= 2 {
            let (a, b) = (engine::idx(a, n), engine::idx(b, n));
            if a != b && case.records[a].node % 3 == case.records[b].node % 3 {
                ranks[b] = ranks[a];
            }
        }
    }
    case.records
        .iter()
        .zip(ranks)
        .map(|(r, rank)| {
            let ts = stamp(rank, case.logical_mode);
            let (info, authentic) = build(r, ts);
            Prepared {
                node: r.node % 3,
                info,
                authentic,
                ts,
            }
        })
        .collect()
}

fn all_orders(n: usize) -> Vec<Vec<usize>> {
    fn rec(cur: &mut Vec<usize>, used: &mut Vec<bool>, n: usize, out: &mut Vec<Vec<usize>>) {
        if cur.len() == n {
            out.push(cur.clone());
            return;
        }
        for i in 0..n {
            if !used[i] {
                used[i] = true;
                cur.push(i);
                rec(cur, used, n, out);
                cur.pop();
                used[i] = false;
            }
        }
    }
    let mut out = vec![];
    rec(&mut vec![], &mut vec![false; n], n, &mut out);
    out
}

fn run_order_direct(prepared: &[Prepared], order: &[usize]) -> Result<(), String> {
    let mut infos: BTreeMap<u8, NodeInfo> = BTreeMap::new();
    let mut best: BTreeMap<u8, usize> = BTreeMap::new();
    for (step, i) in order.iter().enumerate() {
        let p = &prepared[*i];
        let info = infos.entry(p.node).or_insert_with(|| NodeInfo::new(key(p.node).verifying_key()));
        let res = info.update_transports(p.info.clone());
        if p.authentic {
            let newer = best.get(&p.node).map(|b| p.ts > prepared[*b].ts).unwrap_or(true);
            match res {
                Ok(flag) => ensure_eq!(flag, newer, "step {step}: update_transports returned the wrong 'is newer' flag for record {i}"),
                Err(e) => return Err(format!("step {step}: authentic record {i} was rejected: {e}")),
            }
            if newer {
                best.insert(p.node, *i);
            }
        } else {
            ensure!(res.is_err(), "step {step}: forged/mismatched record {i} ({:?}) was accepted", p.info);
        }
        let expected = best.get(&p.node).map(|b| prepared[*b].info.clone());
        ensure_eq!(
            info.transports,
            expected,
            "step {step}: stored transport info of node {} is not the newest authentic record delivered so far (order {order:?})",
            p.node
        );
    }
    Ok(())
}

fn classify(case: &Case, prepared: &[Prepared], order: &[usize]) -> CaseOk {
    // Non-trivial: for some node the newest authentic record is not delivered last among that
    // node's records, and a forged record carries a higher timestamp than every authentic one.
    let mut nontrivial = false;
    for node in 0..3u8 {
        let of_node: Vec<usize> = order.iter().copied().filter(|i| prepared[*i].node == node).collect();
        let newest_auth = of_node.iter().filter(|i| prepared[**i].authentic).max_by_key(|i| prepared[**i].ts);
        let Some(newest_auth) = newest_auth else { continue };
        let not_last = of_node.last() != Some(newest_auth);
        let forged_highest = of_node
            .iter()
            .any(|i| !prepared[*i].authentic && prepared[*i].ts > prepared[*newest_auth].ts);
        if not_last && forged_highest {
            nontrivial = true;
        }
    }
    let mut equal_stamp_pair = false;
    for i in 0..prepared.len() {
        for j in i + 1..prepared.len() {
            if prepared[i].node == prepared[j].node && prepared[i].ts == prepared[j].ts && prepared[i].authentic && prepared[j].authentic {
                equal_stamp_pair = true;
            }
        }
    }
    CaseOk::nontrivial(nontrivial)
        .label_if(equal_stamp_pair, "two_authentic_records_with_equal_timestamp")
        .label_if(case.logical_mode, "ordered_by_logical_part_only")
        .label_if(prepared.iter().any(|p| !p.authentic), "has_forged")
        .label_if(prepared.iter().any(|p| matches!(p.info, TransportInfo::Trusted(_))), "has_trusted")
}

fn check_direct(case: &Case) -> CaseResult {
    let prepared = prepare(case);
    let n = prepared.len();
    let generated = permutation(&case.order_keys, n);
    if n <= 5 {
        for order in all_orders(n) {
            run_order_direct(&prepared, &order)?;
        }
    } else {
        run_order_direct(&prepared, &generated)?;
        let rev: Vec<usize> = generated.iter().rev().copied().collect();
        run_order_direct(&prepared, &rev)?;
    }
    Ok(classify(case, &prepared, &generated).label_if(n <= 5, "all_arrival_orders"))
}

fn check_book(case: &Case) -> CaseResult {
    let _wd = Watchdog::arm("C27 address book case", Duration::from_secs(120));
    let prepared = prepare(case);
    let order = permutation(&case.order_keys, prepared.len());
    let rt = tokio::runtime::Builder::new_current_thread().enable_all().build().map_err(|e| e.to_string())?;
    rt.block_on(async {
        let book = AddressBook::builder().spawn().await.map_err(|e| format!("address book: {e}"))?;
        let mut best: BTreeMap<u8, usize> = BTreeMap::new();
        for (step, i) in order.iter().enumerate() {
            let p = &prepared[*i];
            let id = key(p.node).verifying_key();
            let res = book.insert_transport_info(id, p.info.clone()).await;
            if p.authentic {
                let newer = best.get(&p.node).map(|b| p.ts > prepared[*b].ts).unwrap_or(true);
                match res {
                    Ok(flag) => ensure_eq!(flag, newer, "step {step}: insert_transport_info returned the wrong flag for record {i}"),
                    Err(e) => return Err(format!("step {step}: authentic record {i} was rejected: {e}")),
                }
                if newer {
                    best.insert(p.node, *i);
                }
            } else {
                ensure!(res.is_err(), "step {step}: forged/mismatched record {i} was accepted by the address book");
            }
            let stored = book.node_info(id).await.map_err(|e| format!("node_info: {e}"))?;
            let expected = best.get(&p.node).map(|b| prepared[*b].info.clone());
            ensure_eq!(
                stored.and_then(|s| s.transports),
                expected,
                "step {step}: address book entry of node {} is not the newest authentic record delivered so far",
                p.node
            );
        }
        Ok(classify(case, &prepared, &order))
    })
}

fn record() -> impl Strategy<Value = Record> {
    (
        0u8..3,
        prop_oneof![
            4 => Just(Kind::Signed),
            1 => Just(Kind::SignedEmpty),
            2 => Just(Kind::SignedByOther),
            1 => any::<u16>().prop_map(Kind::SignatureBitFlipped),
            2 => Just(Kind::TimestampChangedAfterSigning),
            2 => Just(Kind::TrustedMatching),
            1 => Just(Kind::TrustedForeignId),
        ],
        any::<u16>(),
    )
        .prop_map(|(node, kind, port)| Record { node, kind, port })
}

fn case(max: usize) -> impl Strategy<Value = Case> {
    (
        prop::collection::vec(record(), 1..=max),
        prop::collection::vec(any::<u16>(), max),
        prop::collection::vec(any::<u16>(), max),
        prop::bool::weighted(0.3),
        prop::option::weighted(0.4, (any::<u16>(), any::<u16>())),
    )
        .prop_map(|(records, stamp_keys, order_keys, logical_mode, same_stamp)| Case {
            records,
            stamp_keys,
            order_keys,
            logical_mode,
            same_stamp,
        })
}

pub fn run(mut ctx: Ctx) -> ! {
    ctx.assume("records carry pairwise distinct timestamps except one optional equal-timestamp pair (must not replace: only a strictly newer record may); a record signed by the node itself whose address names another endpoint id is not generated (the statement requires the id match only for trusted records)");
    ctx.assume("insert_node_info is a documented local overwrite and is not part of the last-write-wins rule");
    ctx.run_prop(
        Part::new(
            "update_transports",
            "1-10 records over <=3 nodes with distinct hybrid timestamps (30%: equal wall-clock part, ordered by the logical part) and kinds signed / signed-empty / signed by another key / signature bit flipped / re-dated after signing / trusted matching / trusted foreign id; all arrival orders for <=5 records, generated + reversed order beyond; non-trivial = for some node the newest authentic record is not delivered last and a forged record carries a higher timestamp",
            1_500,
            60_000,
        )
        .min_nontrivial(0.1),
        || prop_oneof![case(5), case(10)],
        check_direct,
    );
    ctx.run_prop(
        Part::new(
            "address_book_actor",
            "the same records delivered in a generated order through a spawned AddressBook (insert_transport_info, node_info read back after every step); non-trivial as above",
            120,
            4_000,
        )
        .min_nontrivial(0.1),
        || case(10),
        check_book,
    );
    ctx.finish()
}
