//! C29 Gossip overlay is left exactly when the last handle is gone.
//!
//! The harness owns the schedule (building block B6). 2–4 actors act on one topic of a `Gossip`
//! whose manager is the probe actor of the verification hook (records `Subscribe`/`Unsubscribe`,
//! answers with fresh channels; probe manager and probe address book run on the harness'
//! current-thread runtime, so there is no other thread). Actions: `stream()` – which passes the
//! hook gates between its liveness check and the guard clone, and before a fresh subscribe –,
//! `subscribe()`, clone of a handle, drop of any held handle/subscription. A harness gate between
//! two actions lets the schedule interleave the synchronous ones too.
//!
//! Oracle (reference count kept by the harness next to every acquire/release):
//! * whenever an actor holds a handle or subscription, the manager's last record for the topic is
//!   a `Subscribe` (never unsubscribed while one is alive; a handle returned by `stream()` is
//!   backed by an active subscription);
//! * when nobody holds anything and no `stream()` call is in flight, the last record is an
//!   `Unsubscribe` (the overlay is left when the last one goes);
//! * never two `Unsubscribe` in a row (not twice for one subscription).

use std::cell::RefCell;
use std::rc::Rc;

use engine::proptest::prelude::*;
use engine::sched::{Actor, ActorState};
use engine::{CaseOk, CaseResult, Ctx, Part, ensure, idx};
use p2panda_core::{SigningKey, Topic};
use p2panda_net::gossip::verif::{Probe, ProbeEvent, probe_gossip_local};
use p2panda_net::gossip::{Gossip, GossipConfig, GossipHandle, GossipSubscription};
use p2panda_net::verif_gate;
use serde::{Deserialize, Serialize};

#[derive(Clone, Debug, Serialize, Deserialize)]
enum Action {
    Stream,
    Subscribe(u16),
    CloneHandle(u16),
    Drop(u16),
    DropAll,
}

#[derive(Clone, Debug, Serialize, Deserialize)]
struct Case {
    scripts: Vec<Vec<Action>>,
    schedule: Vec<u16>,
}

enum Held {
    Handle(GossipHandle),
    Subscription(GossipSubscription),
}

#[derive(Default)]
struct Model {
    live: usize,
    in_flight_streams: usize,
    ever_live: bool,
    /// A drop brought `live` to zero while some actor sat in the check->clone window.
    race_window_hit: bool,
    actors_at_after_check: usize,
    failures: Vec<String>,
}

async fn actor_body(gossip: Gossip, topic: Topic, script: Vec<Action>, model: Rc<RefCell<Model>>) {
    let mut held: Vec<Held> = Vec::new();
    for action in script {
        match action {
            Action::Stream => {
                model.borrow_mut().in_flight_streams += 1;
                let res = gossip.stream(topic).await;
                let mut m = model.borrow_mut();
                m.in_flight_streams -= 1;
                match res {
                    Ok(h) => {
                        m.live += 1;
                        m.ever_live = true;
                        held.push(Held::Handle(h));
                    }
                    Err(e) => m.failures.push(format!("stream() failed: {e}")),
                }
            }
            Action::Subscribe(i) => {
                let handles: Vec<usize> = held
                    .iter()
                    .enumerate()
                    .filter(|(_, h)| matches!(h, Held::Handle(_)))
                    .map(|(i, _)| i)
                    .collect();
                if !handles.is_empty() {
                    let k = handles[idx(i, handles.len())];
                    if let Held::Handle(h) = &held[k] {
                        let s = h.subscribe();
                        model.borrow_mut().live += 1;
                        held.push(Held::Subscription(s));
                    }
                }
            }
            Action::CloneHandle(i) => {
                let handles: Vec<usize> = held
                    .iter()
                    .enumerate()
                    .filter(|(_, h)| matches!(h, Held::Handle(_)))
                    .map(|(i, _)| i)
                    .collect();
                if !handles.is_empty() {
                    let k = handles[idx(i, handles.len())];
                    if let Held::Handle(h) = &held[k] {
                        let c = h.clone();
                        model.borrow_mut().live += 1;
                        held.push(Held::Handle(c));
                    }
                }
            }
            Action::Drop(i) => {
                if !held.is_empty() {
                    let k = idx(i, held.len());
                    let item = held.remove(k);
                    drop(item);
                    let mut m = model.borrow_mut();
                    m.live -= 1;
                    if m.live == 0 && m.actors_at_after_check > 0 {
                        m.race_window_hit = true;
                    }
                }
            }
            Action::DropAll => {
                while let Some(item) = held.pop() {
                    drop(item);
                    let mut m = model.borrow_mut();
                    m.live -= 1;
                    if m.live == 0 && m.actors_at_after_check > 0 {
                        m.race_window_hit = true;
                    }
                }
            }
        }
        // Schedule point between two actions of one actor.
        verif_gate::gate("harness_between_actions").await;
    }
    // Whatever is still held is released at the end of the script.
    while let Some(item) = held.pop() {
        drop(item);
        let mut m = model.borrow_mut();
        m.live -= 1;
        if m.live == 0 && m.actors_at_after_check > 0 {
            m.race_window_hit = true;
        }
        drop(m);
        verif_gate::gate("harness_between_actions").await;
    }
}

fn topic_events(probe: &Probe, topic: Topic) -> Vec<bool> {
    // true = Subscribe, false = Unsubscribe
    probe
        .lock()
        .unwrap()
        .events
        .iter()
        .filter_map(|e| match e {
            ProbeEvent::Subscribe(t, _) if *t == topic => Some(true),
            ProbeEvent::Unsubscribe(t) if *t == topic => Some(false),
            _ => None,
        })
        .collect()
}

async fn settle() {
    // Lets the probe actors (tokio tasks on this current-thread runtime) drain their mailboxes.
    for _ in 0..24 {
        tokio::task::yield_now().await;
    }
}

fn check_invariants(model: &Model, events: &[bool], when: &str) -> Result<(), String> {
    if let Some(f) = model.failures.first() {
        return Err(f.clone());
    }
    for w in events.windows(2) {
        ensure!(w[0] || w[1], "two Unsubscribe requests in a row for the topic ({when}); records: {}", render(events));
    }
    if model.live > 0 {
        ensure!(
            events.last() == Some(&true),
            "{} handle(s)/subscription(s) are alive but the manager's last record for the topic is {} ({when}); records: {}",
            model.live,
            match events.last() {
                Some(false) => "Unsubscribe",
                _ => "missing",
            },
            render(events)
        );
    } else if model.in_flight_streams == 0 && model.ever_live {
        ensure!(
            events.last() == Some(&false),
            "no handle or subscription is left and no stream() call is in flight, but the overlay was not left ({when}); records: {}",
            render(events)
        );
    }
    Ok(())
}

fn render(events: &[bool]) -> String {
    events.iter().map(|e| if *e { "S" } else { "U" }).collect::<Vec<_>>().join(" ")
}

fn check(case: &Case) -> CaseResult {
    let rt = tokio::runtime::Builder::new_current_thread().enable_all().build().map_err(|e| e.to_string())?;
    rt.block_on(async {
        let node = SigningKey::from_bytes(&[0x29; 32]).verifying_key();
        let (gossip, probe) = probe_gossip_local(node, GossipConfig::default(), 16).await;
        let topic = Topic::from([0x29; 32]);
        let model = Rc::new(RefCell::new(Model::default()));
        verif_gate::enable(true);
        let take = || verif_gate::take_last();

        let mut actors: Vec<Actor<'_, ()>> = case
            .scripts
            .iter()
            .enumerate()
            .map(|(i, s)| Actor::new(format!("actor{i}"), actor_body(gossip.clone(), topic, s.clone(), model.clone())))
            .collect();

        let mut trace: Vec<String> = Vec::new();
        let result: Result<(), String> = async {
            let mut picks = case.schedule.iter();
            let mut guard = 0;
            loop {
                guard += 1;
                ensure!(guard < 5_000, "schedule loop did not terminate; trace: {}", trace.join("; "));
                let runnable: Vec<usize> = (0..actors.len()).filter(|i| actors[*i].runnable()).collect();
                if runnable.is_empty() {
                    if actors.iter().all(|a| a.is_done()) {
                        break;
                    }
                    // Everyone is blocked: give the probe tasks time, then look again.
                    settle().await;
                    let again: Vec<usize> = (0..actors.len()).filter(|i| actors[*i].runnable()).collect();
                    if again.is_empty() {
                        return Err(format!(
                            "deadlock: actors {:?} are blocked forever; trace: {}",
                            actors.iter().filter(|a| !a.is_done()).map(|a| a.name.clone()).collect::<Vec<_>>(),
                            trace.join("; ")
                        ));
                    }
                    continue;
                }
                // After the generated schedule is used up, continue round-robin (pick 0).
                let pick = picks.next().copied().unwrap_or(0);
                let a = runnable[idx(pick, runnable.len())];
                let was_at_check = actors[a].state == ActorState::AtGate("gossip_stream_after_check");
                if was_at_check {
                    model.borrow_mut().actors_at_after_check -= 1;
                }
                let st = actors[a].step(&take);
                if st == ActorState::AtGate("gossip_stream_after_check") {
                    model.borrow_mut().actors_at_after_check += 1;
                }
                if st == ActorState::Blocked {
                    // RPC to a probe task or a lock held by another actor: let the tasks run.
                    settle().await;
                    actors[a].refresh();
                }
                trace.push(format!("{}:{:?}", actors[a].name, actors[a].state));
                settle().await;
                let events = topic_events(&probe, topic);
                check_invariants(&model.borrow(), &events, &format!("after step {} of {}", trace.len(), actors[a].name))
                    .map_err(|e| format!("{e}; trace: {}", trace.join("; ")))?;
            }
            Ok(())
        }
        .await;
        verif_gate::enable(false);
        result?;

        let m = model.borrow();
        ensure!(m.live == 0, "harness error: model still has live objects at the end");
        let events = topic_events(&probe, topic);
        check_invariants(&m, &events, "at the end")?;
        let subs = events.iter().filter(|e| **e).count();
        let unsubs = events.len() - subs;
        if m.ever_live {
            ensure!(subs == unsubs, "{subs} Subscribe but {unsubs} Unsubscribe requests over the whole history; records: {}", render(&events));
        }
        drop(actors);
        Ok(CaseOk::nontrivial(m.race_window_hit)
            .label_if(subs >= 2, "re_subscribed_after_leave")
            .label_if(m.race_window_hit, "last_drop_inside_check_clone_window")
            .label_if(case.scripts.len() >= 3, "three_or_more_actors"))
    })
}

fn action() -> impl Strategy<Value = Action> {
    prop_oneof![
        5 => Just(Action::Stream),
        2 => any::<u16>().prop_map(Action::Subscribe),
        1 => any::<u16>().prop_map(Action::CloneHandle),
        5 => any::<u16>().prop_map(Action::Drop),
        2 => Just(Action::DropAll),
    ]
}

#[derive(Clone, Debug, Serialize, Deserialize)]
struct ThreadCase {
    rounds: u16,
    /// Per round: how many extra references (clones / subscriptions) exist besides the two that
    /// are dropped simultaneously, and whether the racing pair is (handle, handle) or
    /// (handle, subscription).
    shapes: Vec<(u8, bool)>,
}

/// Real threads: the last two references of a topic are dropped at the same moment from two
/// threads (spin rendezvous). Whatever the timing, exactly one of the drops is the last one:
/// one `Unsubscribe` per `Subscribe`, never two in a row.
fn check_threads(case: &ThreadCase) -> CaseResult {
    use std::sync::Arc;
    use std::sync::atomic::{AtomicUsize, Ordering};
    let rt = tokio::runtime::Builder::new_multi_thread()
        .worker_threads(2)
        .enable_all()
        .build()
        .map_err(|e| e.to_string())?;
    rt.block_on(async {
        let node = SigningKey::from_bytes(&[0x2A; 32]).verifying_key();
        let (gossip, probe) = probe_gossip_local(node, GossipConfig::default(), 16).await;
        let rounds = case.rounds.max(1) as usize;
        let mut topics = Vec::new();
        for r in 0..rounds {
            let mut bytes = [0u8; 32];
            bytes[..8].copy_from_slice(&(r as u64 + 1).to_le_bytes());
            let topic = Topic::from(bytes);
            topics.push(topic);
            let (extra, with_subscription) = case.shapes.get(r % case.shapes.len().max(1)).copied().unwrap_or((0, false));
            let first = gossip.stream(topic).await.map_err(|e| format!("stream: {e}"))?;
            // Extra references are dropped (sequentially) before the race.
            let extras: Vec<GossipHandle> = (0..extra % 3).map(|_| first.clone()).collect();
            enum Ref {
                H(GossipHandle),
                S(GossipSubscription),
            }
            let second = if with_subscription { Ref::S(first.subscribe()) } else { Ref::H(first.clone()) };
            drop(extras);
            let rendezvous = Arc::new(AtomicUsize::new(0));
            let spin = |r: &AtomicUsize| {
                r.fetch_add(1, Ordering::SeqCst);
                while r.load(Ordering::SeqCst) < 2 {
                    std::hint::spin_loop();
                }
            };
            let (ra, rb) = (rendezvous.clone(), rendezvous.clone());
            let ta = std::thread::spawn(move || {
                spin(&ra);
                drop(first);
            });
            let tb = std::thread::spawn(move || {
                spin(&rb);
                drop(second);
            });
            ta.join().map_err(|_| "dropper thread panicked".to_string())?;
            tb.join().map_err(|_| "dropper thread panicked".to_string())?;
        }
        // Let the probe manager drain its mailbox: leaves as soon as every topic ends in an
        // Unsubscribe, waits up to 30 s otherwise (load must not turn into a missing record).
        for _ in 0..30_000 {
            tokio::task::yield_now().await;
            tokio::time::sleep(std::time::Duration::from_millis(1)).await;
            let done = topics.iter().all(|t| topic_events(&probe, *t).last() == Some(&false));
            if done {
                break;
            }
        }
        for (r, topic) in topics.iter().enumerate() {
            let events = topic_events(&probe, *topic);
            let subs = events.iter().filter(|e| **e).count();
            let unsubs = events.len() - subs;
            ensure!(
                subs == 1 && unsubs == 1,
                "round {r}: the last two references were dropped simultaneously from two threads: {subs} Subscribe but {unsubs} Unsubscribe requests; records: {}",
                render(&events)
            );
        }
        drop(gossip);
        Ok(CaseOk::nontrivial(rounds >= 50).label_if(case.shapes.iter().any(|s| s.1), "handle_vs_subscription"))
    })
}

pub fn run(mut ctx: Ctx) -> ! {
    ctx.assume("interleavings are explored at gate granularity (hook gates inside Gossip::stream + a harness gate between two actions of an actor); between gates an actor runs on one thread without preemption, as tokio tasks do between await points");
    ctx.assume("the manager is the probe actor of the hook: what is checked is the API layer's Subscribe/Unsubscribe protocol towards the manager, not iroh-gossip");
    ctx.run_prop(
        Part::new(
            "stream_drop_schedules",
            "2-4 actors with scripts of <=6 actions (stream, subscribe, clone handle, drop one, drop all) on one topic, schedule of <=40 picks among runnable actors then round-robin; non-trivial = the last live handle is dropped while another actor sits between stream()'s liveness check and its guard clone",
            2_000,
            100_000,
        )
        .min_nontrivial(0.03),
        || {
            (
                prop::collection::vec(prop::collection::vec(action(), 1..=6), 2..=4),
                prop::collection::vec(any::<u16>(), 0..=40),
            )
                .prop_map(|(scripts, schedule)| Case { scripts, schedule })
        },
        check,
    );
    ctx.run_prop(
        Part::new(
            "threaded_last_drops",
            "real threads: per case 50-400 rounds, each on a fresh topic: stream(), optional extra clones dropped first, then the last two references (handle+handle or handle+subscription) are dropped at the same moment from two threads after a spin rendezvous; exactly one Unsubscribe per topic; non-trivial = at least 50 rounds (timing decides how many rounds really overlap: sampled, not enumerated)",
            12,
            400,
        )
        .workers(2, 8)
        .min_nontrivial(0.5),
        || {
            (50u16..400, prop::collection::vec((0u8..3, any::<bool>()), 1..6)).prop_map(|(rounds, shapes)| ThreadCase { rounds, shapes })
        },
        check_threads,
    );
    ctx.finish()
}
