#![no_main]
use libfuzzer_sys::fuzz_target;
#[path = "../oracles/c26.rs"]
mod oracle;

fuzz_target!(|data: &[u8]| {
    if let Err(msg) = oracle::c26_oracle(data) {
        panic!("ORACLE: {msg}");
    }
});
