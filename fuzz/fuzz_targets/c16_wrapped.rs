#![no_main]
use libfuzzer_sys::fuzz_target;
#[path = "../../harness/node/src/eph_oracle.rs"]
mod eph_oracle;
#[path = "../oracles/c16.rs"]
mod oracle;

fuzz_target!(|data: &[u8]| {
    if let Err(msg) = oracle::c16_oracle(data) {
        panic!("ORACLE: {msg}");
    }
});
