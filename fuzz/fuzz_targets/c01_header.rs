#![no_main]
use libfuzzer_sys::fuzz_target;
#[path = "../../harness/core/src/oracles.rs"]
mod oracles;
#[path = "../oracles/c01.rs"]
mod oracle;

fuzz_target!(|data: &[u8]| {
    if let Err(msg) = oracle::c01_oracle(data) {
        panic!("ORACLE: {msg}");
    }
});
