#!/bin/bash
# Builds the libFuzzer targets (all, or the one given) with the hooks enabled.
set -u
cd "$(dirname "$0")"
export CARGO_NET_OFFLINE=true
export RUSTFLAGS="--cfg p2panda_p2panda_verif -Awarnings"
export CARGO_TARGET_DIR="${VERIF_FUZZ_TARGET_DIR:-$(pwd)/target}"
[ -f Cargo.lock ] || cp /repo/Cargo.lock Cargo.lock
log="$CARGO_TARGET_DIR/build.log"; mkdir -p "$CARGO_TARGET_DIR"
if [ $# -ge 1 ]; then
  cargo +nightly fuzz build --fuzz-dir . "$1" >"$log" 2>&1
else
  cargo +nightly fuzz build --fuzz-dir . >"$log" 2>&1
fi
rc=$?
if [ $rc -ne 0 ]; then tail -n 40 "$log"; echo "HARNESS-ERROR: fuzz build failed (see $log)"; exit 2; fi
exit 0
