//! C16 byte-level oracle shared by the harness (replay / corpus regression) and the libFuzzer
//! target `c16_wrapped`. Requires `eph_oracle` (parse_raw, signed_payload, signature_ok,
//! independently_valid) to be in scope as `crate::eph_oracle`.

use crate::eph_oracle::{independently_valid, parse_raw, signature_ok, signed_payload};

/// Whatever bytes the subscription's decoder accepts must carry a valid signature of the reported
/// author over (version, timestamp, logical, body). Returns Ok(non-trivial) where non-trivial =
/// the input at least parses as a wrapped tuple.
pub fn c16_oracle(data: &[u8]) -> Result<bool, String> {
    let accepted = p2panda::streams::verif::verif_wrapped_from_bytes::<String>(data);
    let parsed = parse_raw(data);
    if let Some((author, timestamp, logical, body)) = accepted {
        let raw = parsed
            .clone()
            .ok_or_else(|| "decoder accepted bytes that do not parse as a wrapped tuple".to_string())?;
        let payload = signed_payload(1, author.as_bytes(), timestamp, logical, &body);
        if !signature_ok(author.as_bytes(), &raw.signature, &payload) {
            return Err(format!(
                "accepted message (author {author}, ts {timestamp}/{logical}, body {body:?}) does not carry a valid signature of that author"
            ));
        }
        if raw.version != 1 {
            return Err(format!("accepted message with unsupported version {}", raw.version));
        }
    } else if independently_valid(data) {
        // Not asserted (decoder may be stricter about encodings than the lenient parser), but an
        // authentic canonical message must be accepted: check the canonical re-encoding.
        let raw = parsed.clone().unwrap();
        let canonical = crate::eph_oracle::encode_raw(
            raw.version,
            &raw.key,
            &raw.signature,
            raw.timestamp,
            raw.logical,
            &ciborium::Value::Text(raw.body.clone().unwrap()),
        );
        if canonical == data {
            return Err("authentic, canonically encoded message was rejected".into());
        }
    }
    Ok(parsed.is_some())
}
