//! C26 byte-level oracle shared by the harness and the libFuzzer target `c26_codec`.
//!
//! Input layout: [limit selector][chunk seed][stream bytes...]. The stream is decoded (a) in one
//! piece, (b) in generated chunks, (c) by a reference walker written here. All three must agree on
//! the decoded items and on where/why decoding stops; every decoded item must re-encode to a frame
//! that decodes to the same item.

use p2panda_net::codec::{Codec, CodecError};
use serde::{Deserialize, Serialize};
use tokio_util::bytes::BytesMut;
use tokio_util::codec::{Decoder, Encoder};

#[derive(Clone, Debug, PartialEq, Serialize, Deserialize)]
pub enum FuzzMsg {
    A(Vec<u8>),
    B(String),
    C(u32, u64),
    D,
}

#[derive(Clone, Debug, PartialEq)]
pub enum Stop {
    NeedMore,
    TooLarge,
    BadPayload,
}

fn run_decoder(stream: &[u8], limit: usize, chunks: &[usize]) -> (Vec<FuzzMsg>, Stop) {
    let mut codec = Codec::<FuzzMsg>::new().max_frame_len(limit);
    let mut buf = BytesMut::new();
    let mut out = Vec::new();
    let mut pos = 0;
    let mut ci = 0;
    loop {
        // Drain everything decodable from what has arrived so far.
        loop {
            match codec.decode(&mut buf) {
                Ok(Some(m)) => out.push(m),
                Ok(None) => break,
                Err(CodecError::TooLargeMessage(..)) => return (out, Stop::TooLarge),
                Err(_) => return (out, Stop::BadPayload),
            }
        }
        if pos >= stream.len() {
            return (out, Stop::NeedMore);
        }
        let n = if chunks.is_empty() { stream.len() } else { chunks[ci % chunks.len()].max(1) };
        ci += 1;
        let end = (pos + n).min(stream.len());
        buf.extend_from_slice(&stream[pos..end]);
        pos = end;
    }
}

fn reference(stream: &[u8], limit: usize) -> (Vec<FuzzMsg>, Stop) {
    let mut out = Vec::new();
    let mut o = 0;
    loop {
        if stream.len() - o < 4 {
            return (out, Stop::NeedMore);
        }
        let len = u32::from_be_bytes(stream[o..o + 4].try_into().unwrap()) as usize;
        if len > limit {
            return (out, Stop::TooLarge);
        }
        if stream.len() - o < 4 + len {
            return (out, Stop::NeedMore);
        }
        match postcard::from_bytes::<FuzzMsg>(&stream[o + 4..o + 4 + len]) {
            Ok(m) => out.push(m),
            Err(_) => return (out, Stop::BadPayload),
        }
        o += 4 + len;
    }
}

pub fn c26_oracle(data: &[u8]) -> Result<bool, String> {
    if data.len() < 2 {
        return Ok(false);
    }
    let limit = match data[0] % 4 {
        0 => 8,
        1 => 64,
        2 => 1024,
        _ => 1024 * 1024 * 128,
    };
    let seed = data[1];
    let stream = &data[2..];
    let chunks: Vec<usize> = match seed % 4 {
        0 => vec![1],
        1 => vec![1, 2, 3, 5, 1, 7],
        2 => vec![(seed as usize / 4) + 1],
        _ => vec![4, 1, (seed as usize / 4) + 1],
    };
    let whole = run_decoder(stream, limit, &[]);
    let chunked = run_decoder(stream, limit, &chunks);
    let refr = reference(stream, limit);
    if whole != chunked {
        return Err(format!("decoding depends on chunk boundaries: whole={whole:?} chunked={chunked:?}"));
    }
    if whole != refr {
        return Err(format!("decoder disagrees with the framing reference: decoder={whole:?} reference={refr:?}"));
    }
    // Round trip of every decoded item.
    for m in &whole.0 {
        let mut enc = Codec::<FuzzMsg>::new().max_frame_len(1024 * 1024 * 128);
        let mut buf = BytesMut::new();
        enc.encode(m.clone(), &mut buf).map_err(|e| format!("re-encode failed: {e}"))?;
        let body = postcard::to_allocvec(m).map_err(|e| e.to_string())?;
        let mut expect = (body.len() as u32).to_be_bytes().to_vec();
        expect.extend(body);
        if buf[..] != expect[..] {
            return Err("encoder output is not length-prefixed postcard".into());
        }
        let back = run_decoder(&buf, 1024 * 1024 * 128, &[1]);
        if back.0 != vec![m.clone()] {
            return Err(format!("round trip changed the message: {m:?} -> {back:?}"));
        }
    }
    Ok(whole.0.len() >= 2)
}
