//! C01 / C02 byte-level oracles shared by the harness and the libFuzzer targets `c01_header` and
//! `c02_roundtrip`. Requires the core group's `oracles` module in scope as `crate::oracles`.
//!
//! Input layout: [selector][body length][body bytes..][header bytes..]. selector bit0: extension
//! kind (0 = `()`, 1 = Node API extensions); bit1: body attached.

use p2panda_core::cbor::decode_cbor;
use p2panda_core::{Body, Header, Operation, validate_operation};

use crate::oracles::{ExtKind, Roundtrip, reference_valid, roundtrip_oracle};

fn split(data: &[u8]) -> Option<(u8, Option<&[u8]>, &[u8])> {
    if data.len() < 2 {
        return None;
    }
    let sel = data[0];
    let blen = data[1] as usize;
    let rest = &data[2..];
    if sel & 2 != 0 {
        if rest.len() < blen {
            return None;
        }
        Some((sel, Some(&rest[..blen]), &rest[blen..]))
    } else {
        Some((sel, None, rest))
    }
}

fn differential<E>(header_bytes: &[u8], body: Option<&[u8]>, kind: ExtKind) -> Result<bool, String>
where
    E: p2panda_core::Extensions,
{
    let Ok(header) = decode_cbor::<Header<E>, _>(header_bytes) else {
        return Ok(false);
    };
    let canonical = header.to_bytes();
    let op = Operation {
        hash: header.hash(),
        header,
        body: body.map(Body::new),
    };
    let real = validate_operation(&op).is_ok();
    let reference = reference_valid(&canonical, body, kind);
    if real != reference {
        return Err(format!(
            "validate_operation says {real}, reference predicate says {reference} for header {} body {:?}",
            hex::encode(&canonical),
            body.map(hex::encode)
        ));
    }
    Ok(true)
}

pub fn c01_oracle(data: &[u8]) -> Result<bool, String> {
    let Some((sel, body, header)) = split(data) else {
        return Ok(false);
    };
    if sel & 1 == 0 {
        differential::<()>(header, body, ExtKind::Unit)
    } else {
        differential::<p2panda::operation::Extensions>(header, body, ExtKind::Node)
    }
}

pub fn c02_oracle(data: &[u8]) -> Result<bool, String> {
    if data.is_empty() {
        return Ok(false);
    }
    let r = if data[0] & 1 == 0 {
        roundtrip_oracle::<()>(&data[1..], 4)?
    } else {
        roundtrip_oracle::<p2panda::operation::Extensions>(&data[1..], 4)?
    };
    Ok(r == Roundtrip::Valid)
}
