#!/bin/bash
# Scratch copy of (/repo worktree + /verif harness) for sensitivity tests, fix trials and seeded changes.
#
#   tools/scratch.sh new  <name>    create /tmp/sc-<name>/{repo,verif}; repo = worktree of /repo HEAD
#   tools/scratch.sh sync <name>    re-copy /verif (harness, check, known findings, replays) into the scratch
#   tools/scratch.sh rm   <name>    remove the scratch (worktree and its build output)
#
# Inside the scratch, run  /tmp/sc-<name>/verif/check <ID> ...  : the harness' path dependencies
# (../../repo) resolve to the scratch worktree, replays/evidence are written inside the scratch.
# Use VERIF_TARGET_DIR=/tmp/vt-<name> to keep build output out of /verif (reuses registry deps).
set -eu
cmd="${1:?}"; name="${2:?}"
base="/tmp/sc-$name"
copy_verif() {
  mkdir -p "$base/verif"
  rsync -a --delete --exclude target --exclude .git --exclude evidence --exclude 'fuzz/target' /verif/ "$base/verif/"
  mkdir -p "$base/verif/evidence"
}
case "$cmd" in
  new)
    mkdir -p "$base"
    git -C /repo worktree add --detach "$base/repo" HEAD >/dev/null
    copy_verif
    echo "$base"
    ;;
  sync) copy_verif ;;
  rm)
    git -C /repo worktree remove --force "$base/repo" 2>/dev/null || true
    rm -rf "$base"
    git -C /repo worktree prune
    ;;
  *) echo "usage: $0 new|sync|rm <name>"; exit 2 ;;
esac
