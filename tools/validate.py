#!/usr/bin/env python3
import json, jsonschema, glob, sys
ok = True
m = json.load(open('/verif/MANIFEST.json'))
jsonschema.validate(m, json.load(open('/root/.vp/MANIFEST.schema.json')))
es = json.load(open('/root/.vp/EVIDENCE.schema.json'))
for c in m['checks']:
    try:
        jsonschema.validate(json.load(open(c['evidence_file'])), es)
    except Exception as e:
        ok = False; print('BAD', c['property_id'], str(e)[:200])
print('manifest ok;', len(m['checks']), 'checks; evidence', 'ok' if ok else 'PROBLEMS')
sys.exit(0 if ok else 1)
