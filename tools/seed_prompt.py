#!/usr/bin/env python3
"""Prints the prompt for a seeded-change sub-agent: seed_prompt.py <ID> <worktree>"""
import json, sys
pid, wt = sys.argv[1], sys.argv[2]
p = next(json.loads(l) for l in open('/verif/properties.jsonl') if json.loads(l)['id'] == pid)
print(f"""You are given a git worktree of the Rust workspace p2panda (a modular p2p toolkit) at `{wt}`. It is your private scratch copy: work ONLY inside `{wt}` (never touch /repo or /verif, and do not read anything under /verif). The sandbox is offline: use `cargo ... --offline`; set `CARGO_TARGET_DIR=/tmp/seed-target-{pid}` for every cargo command (your own build directory; do NOT share a target dir with other worktrees – cargo would link stale artifacts of another worktree).

Here is a semantic property that the code currently satisfies:

ID: {p['id']}
Title: {p['title']}
Statement: {p['statement']}
Quantifier: {json.dumps(p['quantifier'])}
Why ordinary tests cannot settle it: {p.get('why_tests_cant','')}
Anchors: {json.dumps(p['anchors'])}

Your task: make a change to the *library code* in the worktree (not to tests) that BREAKS this property while
 (1) the workspace still compiles, and
 (2) the existing tests of the affected crate(s) still pass unedited (`cargo test -p <crate> --offline`; run them), and
 (3) the breakage is NOT exposed by ordinary use at once: it must need something specific to manifest – a particular interleaving, a crash or fault at a particular point, a multi-step sequence of operations, an unusual input, or two cooperating sites that each look fine alone. Think of a realistic regression a maintainer could introduce (a refactoring slip, an "optimisation", an off-by-one on a boundary, a reordered await, a dropped re-check), not sabotage that any smoke test reveals.

Also write a demonstration: a new test file or small program inside the worktree (e.g. an integration test under the crate's `tests/` directory, or a `#[cfg(test)]` module in a NEW file) that FAILS with your change and PASSES without it. Verify both directions yourself (never use `git stash` – the stash is shared between all worktrees of the repository; use `git diff > /tmp/<your-id>.diff; git checkout -- <files>; ...; git apply /tmp/<your-id>.diff` inside the worktree).

Deliver, inside the worktree:
 - `SEEDED/patch.diff`  : `git diff` of the library change only (must apply with `git apply` to a clean checkout of the same commit),
 - `SEEDED/demo/...`    : the demonstration file(s) plus `SEEDED/demo/README` saying where to copy them and the exact command to run,
 - `SEEDED/meta.json`   : {{"property": "{p['id']}", "what_changed": "...", "needs_to_manifest": "...", "commands_run": ["..."], "existing_tests_pass": true}}.
Leave the worktree with the library change applied. In your final message summarise the change, what it needs to manifest, and the commands you ran with their outcomes. Do not run `git commit`.""")
