#!/usr/bin/env python3
"""Generates /verif/MANIFEST.json from the table in tools/checks.json (one entry per claimed property)."""
import json, os, sys
here = os.path.dirname(os.path.abspath(__file__))
root = os.path.dirname(here)
table = json.load(open(os.path.join(here, "checks.json")))
props = [json.loads(l) for l in open(os.path.join(root, "properties.jsonl"))]
ids = [p["id"] for p in props]
checks = []
na = []
for pid in ids:
    e = table["checks"].get(pid)
    if e is None or e.get("not_applicable"):
        na.append({"property_id": pid, "reason": (e or {}).get("not_applicable", "check not built yet (work in progress); not claimed")})
        continue
    checks.append({
        "property_id": pid,
        "quick_cmd": f"./check {pid} --tier quick",
        "thorough_cmd": f"./check {pid} --tier thorough",
        "evidence_file": f"/verif/evidence/{pid}.json",
        "replay_cmd_template": f"./check {pid} --replay {{path}}",
        "engine": e.get("engine", "harness"),
        "level_claimed": {
            "category": "exploration",
            "text": e["level_text"],
            "design_ref": f"DESIGN.md §4 {pid}",
        },
        "level_note": e["level_note"],
        "technique": e["technique"],
    })
manifest = {
    "version": 1,
    "setup_cmd": "./check --build",
    "hooks": table["hooks"],
    "engines": table["engines"],
    "checks": checks,
    "notes": table["notes"],
    "not_applicable": na,
}
json.dump(manifest, open(os.path.join(root, "MANIFEST.json"), "w"), indent=1)
print(f"claimed {len(checks)}, not claimed {len(na)}")
