#!/bin/bash
# Runs the quick tier of the given (default: all claimed) checks with several seeds; lists non-zero exits.
cd /verif
ids="${IDS:-$(python3 -c "import json;print(' '.join(c['property_id'] for c in json.load(open('MANIFEST.json'))['checks']))")}"
seeds="${SEEDS:-1 2 3 4 5}"
out="${OUT:-/tmp/silence.log}"
: > "$out"
for id in $ids; do
  for s in $seeds; do
    start=$(date +%s)
    VERIF_SEED=$s ./check $id --tier quick > /tmp/silence-$id-$s.out 2>&1
    rc=$?
    end=$(date +%s)
    echo "$id seed=$s exit=$rc wall=$((end-start))s $(grep -c '^VIOLATION' /tmp/silence-$id-$s.out) violations" >> "$out"
    [ $rc -eq 0 ] && rm -f /tmp/silence-$id-$s.out
  done
done
echo DONE >> "$out"
