#!/usr/bin/env python3
"""Merges entries into tools/checks.json:  update_checks.py <json-file-with-entries>"""
import json, sys, os
here = os.path.dirname(os.path.abspath(__file__))
p = os.path.join(here, "checks.json")
t = json.load(open(p))
new = json.load(open(sys.argv[1]))
t["checks"].update(new)
hooks = [l.split()[0] for l in os.popen("git -C /repo log --format='%h %s' --grep='^verif hooks'").read().splitlines()]
t["hooks"]["source_commits"] = hooks
json.dump(t, open(p, "w"), indent=1)
