#!/bin/bash
# seed_confirm.sh <seed-id> <crate> <test-name> <demo-file-dest-relative-to-worktree> [extra RUSTFLAGS]
# Re-runs the demonstration in the seed's own worktree with and without the change, plus the crate's existing tests
# with the change. Appends the outcome to /verif/seeded/<id>/confirm.log.
sid="$1"; crate="$2"; tname="$3"; dest="$4"; flags="${5:-}"
wt=/tmp/seed-$sid; export CARGO_TARGET_DIR=/tmp/seed-target-$sid
log=/verif/seeded/$sid/confirm.log; mkdir -p /verif/seeded/$sid; : > $log
cd $wt || exit 2
demo=$(ls SEEDED/demo/*.rs | head -1)
cp "$demo" "$dest"
git checkout -- . 2>/dev/null; git apply SEEDED/patch.diff || { echo "patch does not apply" | tee -a $log; exit 3; }
echo "== with change: demo" >> $log
RUSTFLAGS="$flags" cargo test -p $crate --offline --test $tname 2>&1 | grep -E "^test |test result" >> $log
echo "== with change: existing tests of $crate" >> $log
cargo test -p $crate --offline 2>&1 | grep -E "test result|FAILED|failed" >> $log
git apply -R SEEDED/patch.diff
echo "== without change: demo" >> $log
RUSTFLAGS="$flags" cargo test -p $crate --offline --test $tname 2>&1 | grep -E "^test |test result" >> $log
git apply SEEDED/patch.diff
rm -f "$dest"
cat $log
