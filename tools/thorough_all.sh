#!/bin/bash
# Runs every claimed check's thorough tier once (sequentially), logs exit code and wall time.
cd /verif
ids="${IDS:-$(python3 -c "import json;print(' '.join(c['property_id'] for c in json.load(open('MANIFEST.json'))['checks']))")}"
out="${OUT:-/tmp/thorough.log}"; : > "$out"
mkdir -p /tmp/thorough-evidence
for id in $ids; do
  cp evidence/$id.json /tmp/thorough-evidence/$id.quick.json 2>/dev/null
  start=$(date +%s)
  timeout 3600 ./check $id --tier thorough > /tmp/thorough-$id.out 2>&1
  rc=$?
  end=$(date +%s)
  cp evidence/$id.json /tmp/thorough-evidence/$id.thorough.json 2>/dev/null
  cp /tmp/thorough-evidence/$id.quick.json evidence/$id.json 2>/dev/null
  echo "$id exit=$rc wall=$((end-start))s $(tail -1 /tmp/thorough-$id.out | cut -c1-160)" >> "$out"
done
echo DONE >> "$out"
