#!/bin/bash
# Lead's own confirmation of seeded changes in ONE scratch worktree (/tmp/seedconf, own target dir):
# for every line "id crate testname features" applies seeded/<id>/patch.diff, copies the demo into <crate>/tests/,
# runs the demo (expect FAIL) and the crate's existing tests (expect pass), reverts the patch, runs the demo again
# (expect PASS). Writes seeded/<id>/confirm.log.
set -u
wt=/tmp/seedconf; export CARGO_TARGET_DIR=/tmp/seedconf-target
[ -d $wt ] || git -C /repo worktree add --detach $wt HEAD >/dev/null
cd $wt
while read -r sid crate tname feats cfg; do
  [ -z "$sid" ] && continue
  d=/verif/seeded/$sid; log=$d/confirm.log; : > $log
  git checkout -- . ; git clean -fdq
  mkdir -p $crate/tests; cp $d/demo/$tname.rs $crate/tests/$tname.rs
  f=""; [ "$feats" != "-" ] && f="--features $feats"
  if [ "${cfg:-}" = "verif" ]; then export RUSTFLAGS="--cfg p2panda_p2panda_verif"; else unset RUSTFLAGS; fi
  if ! git apply $d/patch.diff 2>>$log; then echo "patch does not apply to $(git rev-parse --short HEAD)" >> $log; continue; fi
  echo "== with change: demo ($(git rev-parse --short HEAD))" >> $log
  cargo test -p $crate --offline $f --test $tname 2>&1 | grep -E "^test |test result|error(\[|:)" | head -20 >> $log
  echo "== with change: existing tests of $crate" >> $log
  mv $crate/tests/$tname.rs /tmp/seedconf-demo.rs
  cargo test -p $crate --offline 2>&1 | grep -E "test result|FAILED" >> $log
  mv /tmp/seedconf-demo.rs $crate/tests/$tname.rs
  git apply -R $d/patch.diff
  echo "== without change: demo" >> $log
  cargo test -p $crate --offline $f --test $tname 2>&1 | grep -E "^test |test result|error(\[|:)" | head -20 >> $log
  rm -f $crate/tests/$tname.rs
  echo "confirmed $sid: $(grep -c 'FAILED' $log) FAILED lines" 
done
git checkout -- . ; git clean -fdq
