#!/usr/bin/env python3
"""Rewrites the generated tables of DESIGN.md (evidence summary, seeded changes)."""
import json, glob, os, re
root='/verif'
def evidence_table():
    out=["| id | parts (★ = exhaustive) | quick evaluations | distinct non-trivial | quick wall |",
         "|----|------------------------|------------------:|---------------------:|-----------:|"]
    for f in sorted(glob.glob(root+'/evidence/*.json')):
        d=json.load(open(f)); c=d['coverage']
        parts=', '.join(p['name']+('★' if p.get('exhaustive') else '') for p in c.get('parts',[]))
        out.append(f"| {d['property_id']} | {parts} | {c['evaluations']} | {c['distinct_nontrivial']} | {d['wall_s']:.0f} s |")
    return '\n'.join(out)
def seeded_table():
    out=["| seeded change | what it does / needs to manifest | caught by (quick tier) | first version of the check |",
         "|---------------|----------------------------------|------------------------|----------------------------|"]
    for d in sorted(glob.glob(root+'/seeded/*/')):
        sid=os.path.basename(d.rstrip('/'))
        meta={}
        try: meta=json.load(open(d+'meta.json'))
        except Exception: pass
        what=(meta.get('what_changed','')[:220]+' — needs: '+str(meta.get('needs_to_manifest',''))[:220]).replace('\n',' ').replace('|','/')
        lead={}
        try: lead=json.load(open(d+'lead.json'))
        except Exception: pass
        out.append(f"| {sid} | {what} | {lead.get('caught_by','?')} | {lead.get('first_version','caught')} |")
    return '\n'.join(out)
p=root+'/DESIGN.md'; s=open(p).read()
for name,fn in (('evidence',evidence_table),('seeded',seeded_table)):
    s=re.sub(rf'<!-- TABLE:{name}:begin -->.*?<!-- TABLE:{name}:end -->', f'<!-- TABLE:{name}:begin -->\n{fn()}\n<!-- TABLE:{name}:end -->', s, flags=re.S)
open(p,'w').write(s)
print('tables updated')
