#!/bin/bash
# seed_eval.sh <seed-id> <check ids...> : copies /tmp/seed-<id>/SEEDED to /verif/seeded/<id>, applies the patch
# to /repo's working tree, runs the quick tier of the given checks, reverts. Prints one line per check.
sid="$1"; shift
src=/tmp/seed-$sid/SEEDED
dst=/verif/seeded/$sid
mkdir -p "$dst"
cp -r "$src"/* "$dst"/ 2>/dev/null
cd /repo || exit 2
if ! git apply --check "$dst/patch.diff" 2>/tmp/seed-apply.err; then echo "$sid: patch does not apply to current HEAD: $(head -2 /tmp/seed-apply.err)"; exit 3; fi
git apply "$dst/patch.diff"
rm -rf /tmp/evidence-backup && cp -r /verif/evidence /tmp/evidence-backup
for id in "$@"; do
  out=$(cd /verif && timeout 2400 ./check $id --tier quick 2>&1)
  rc=$?
  echo "$sid | $id | exit=$rc violations=$(echo "$out" | grep -c '^VIOLATION') | $(echo "$out" | grep -m1 '^--- violation' | cut -c1-260)"
done
git -C /repo checkout -- . 
git -C /repo status --short | head -3
cp /tmp/evidence-backup/*.json /verif/evidence/ 2>/dev/null
(cd /verif && git status --short replays | awk '$1=="??"{print $2}' | xargs -r rm -rf)
