#!/bin/bash
# mutate.sh <name> <file-in-repo> <python-replace-old> <python-replace-new> <ID> [<ID>...]
# Applies a one-spot source mutation to /repo (working tree), runs the quick tier of the given checks,
# reverts with git checkout. Appends a line per check to /verif/notes/mutants_lead.log.
name="$1"; file="$2"; old="$3"; new="$4"; shift 4
cd /repo || exit 2
python3 - "$file" "$old" "$new" <<'PY' || { echo "$name: PATTERN NOT FOUND"; exit 2; }
import sys
p,old,new=sys.argv[1:4]
s=open(p).read()
if s.count(old)!=1:
    print("count", s.count(old)); sys.exit(1)
open(p,'w').write(s.replace(old,new))
PY
rm -rf /tmp/evidence-backup && cp -r /verif/evidence /tmp/evidence-backup
for id in "$@"; do
  out=$(cd /verif && timeout 1500 ./check $id --tier quick 2>&1)
  rc=$?
  v=$(echo "$out" | grep -c '^VIOLATION')
  part=$(echo "$out" | grep -m1 '^--- violation' | cut -c1-220)
  echo "$name | $file | $id | exit=$rc violations=$v | $part" | tee -a /verif/notes/mutants_lead.log
done
git -C /repo checkout -- "$file"
# replays written by mutant runs are not kept
cp /tmp/evidence-backup/*.json /verif/evidence/ 2>/dev/null
(cd /verif && git status --short replays | awk '$1=="??"{print $2}' | xargs -r rm -rf)
