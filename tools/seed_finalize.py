#!/usr/bin/env python3
"""Merges the lead's results (lead.json, confirm.log) into each seeded/<id>/meta.json under the key "lead"."""
import json, glob, os
for d in sorted(glob.glob('/verif/seeded/*/')):
    sid=os.path.basename(d.rstrip('/'))
    try: meta=json.load(open(d+'meta.json'))
    except Exception: meta={"property": sid[:3]}
    lead={}
    if os.path.exists(d+'lead.json'): lead=json.load(open(d+'lead.json'))
    conf=''
    if os.path.exists(d+'confirm.log'): conf=open(d+'confirm.log').read()
    lead['demo_rerun_by_lead']={
        'with_change_fails': ('== with change: demo' in conf and 'FAILED' in conf.split('== with change: existing')[0]) if conf else None,
        'without_change_passes': ('== without change: demo' in conf and 'test result: ok' in conf.split('== without change: demo')[-1]) if conf else None,
        'log': 'confirm.log' if conf else None,
    }
    lead['how_checks_were_run']='patch applied to /repo working tree with git apply, ./check <id> --tier quick, git checkout -- . (tools/seed_eval.sh)'
    meta['lead']=lead
    json.dump(meta,open(d+'meta.json','w'),indent=1)
    print(sid, lead.get('first_version','?')[:40], lead['demo_rerun_by_lead']['with_change_fails'], lead['demo_rerun_by_lead']['without_change_passes'])
